package gcsca

// Environment doubles for the key-management harnesses (C03, C10, C11, C12): an object store
// with write log and fault injection, a key manager and signer over an abstract set of live
// keys, and abstract X.509: CreateCertificate asks the signer to sign (so signing faults
// propagate) and registers a certificate object copied from the template; ParseCertificate maps
// the abstract DER bytes back to that object.

import (
	"context"
	"crypto"
	"crypto/rsa"
	"crypto/x509"
	"encoding/pem"
	"errors"
	"io"

	"github.com/google/gce-tcb-verifier/keys"
	cpb "github.com/google/gce-tcb-verifier/proto/certificates"
	"github.com/google/gce-tcb-verifier/rotate"
	styp "github.com/google/gce-tcb-verifier/sign/types"
	"github.com/google/gce-tcb-verifier/testing/nonprod/memkm"
	"google.golang.org/protobuf/encoding/prototext"
	"google.golang.org/protobuf/proto"
)

//verif:cut crypto/x509.CreateCertificate verifCreateCertificate
//verif:cut crypto/x509.ParseCertificate verifParseCertificate
//verif:cut github.com/google/gce-tcb-verifier/sign/ops.RsaPublicKey verifRsaPublicKey
//verif:cut encoding/pem.EncodeToMemory verifPemEncode
//verif:cut encoding/pem.Decode verifPemDecode
//verif:cut (google.golang.org/protobuf/encoding/prototext.MarshalOptions).Marshal verifManifestMarshal
//verif:cut google.golang.org/protobuf/encoding/prototext.Unmarshal verifManifestUnmarshal
//verif:cut io.ReadAll verifReadAll

var (
	verifErrFault    = errors.New("verif: injected fault")
	verifErrNotExist = errors.New("verif: object does not exist")
	verifErrDeadKey  = errors.New("verif: key version is not live")
)

var (
	verifFaultCount int
	verifMaxFaults  = 1
	verifEvents     []string // ordered trace of externally visible effects
)

func verifFault(name string) bool {
	b := verifNondetBool(name)
	if b {
		verifFaultCount++
		verifAssume(verifFaultCount <= verifMaxFaults, "number of injected faults within the stated bound")
	}
	return b
}

// ---- abstract certificates ----

type verifCertRec struct {
	cert      *x509.Certificate
	issuerKey string // key version that signed it
	parent    *x509.Certificate
}

var verifCerts []*verifCertRec

func verifCertID(der []byte) int {
	if len(der) != 2 || der[0] != 0xC0 {
		return -1
	}
	return int(der[1])
}

func verifRecOf(c *x509.Certificate) *verifCertRec {
	for _, r := range verifCerts {
		if r.cert == c {
			return r
		}
	}
	return nil
}

func verifCreateCertificate(rand io.Reader, template, parent *x509.Certificate, pub, priv any) ([]byte, error) {
	s, ok := priv.(crypto.Signer)
	if !ok {
		return nil, verifErrFault
	}
	// the library signs the to-be-signed bytes with the issuer key: PSS, SHA-256, salt = hash
	if _, err := s.Sign(rand, []byte{0x5A}, &rsa.PSSOptions{SaltLength: rsa.PSSSaltLengthEqualsHash, Hash: crypto.SHA256}); err != nil {
		return nil, err
	}
	c := *template
	// DER round trip: the CA flag travels in the basicConstraints extension, which is only encoded
	// when the template says it is valid; a certificate parsed back without it is not a CA
	c.IsCA = template.IsCA && template.BasicConstraintsValid
	c.Issuer = parent.Subject
	c.PublicKey = pub
	id := len(verifCerts)
	c.Raw = []byte{0xC0, byte(id)}
	rec := &verifCertRec{cert: &c, issuerKey: verifLastSignKey}
	if parent != template {
		rec.parent = parent
	}
	verifCerts = append(verifCerts, rec)
	return c.Raw, nil
}

func verifParseCertificate(der []byte) (*x509.Certificate, error) {
	id := verifCertID(der)
	if id < 0 || id >= len(verifCerts) {
		return nil, verifErrFault
	}
	return verifCerts[id].cert, nil
}

func verifPemEncode(b *pem.Block) []byte { return append([]byte{0xBE}, b.Bytes...) }

func verifPemDecode(data []byte) (*pem.Block, []byte) {
	if len(data) < 1 || data[0] != 0xBE {
		return nil, data
	}
	return &pem.Block{Type: "CERTIFICATE", Bytes: data[1:]}, nil
}

// ---- keys ----

type verifKey struct {
	name string
	live bool
	pub  *rsa.PublicKey
}

type verifSigner struct {
	keys   []*verifKey
	faults bool
	signs  []string // key names used for signing, in order
}

var verifLastSignKey string

func (s *verifSigner) find(name string) *verifKey {
	for _, k := range s.keys {
		if k.name == name {
			return k
		}
	}
	return nil
}

func (s *verifSigner) Sign(ctx context.Context, keyName string, digest styp.Digest, opts crypto.SignerOpts) ([]byte, error) {
	k := s.find(keyName)
	if k == nil || !k.live {
		return nil, verifErrDeadKey
	}
	if s.faults && verifFault("fail_sign") {
		return nil, verifErrFault
	}
	s.signs = append(s.signs, keyName)
	verifLastSignKey = keyName
	return []byte{0x51}, nil
}

func (s *verifSigner) PublicKey(ctx context.Context, keyName string) ([]byte, error) {
	k := s.find(keyName)
	if k == nil || !k.live {
		return nil, verifErrDeadKey
	}
	return []byte{0x9B}, nil
}

var verifTheSigner *verifSigner

func verifRsaPublicKey(ctx context.Context, s styp.Signer, keyVersionName string) (*rsa.PublicKey, error) {
	vs := s.(*verifSigner)
	k := vs.find(keyVersionName)
	if k == nil || !k.live {
		return nil, verifErrDeadKey
	}
	if vs.faults && verifFault("fail_pubkey") {
		return nil, verifErrFault
	}
	return k.pub, nil
}

// verifKM: key manager over the signer's key set. nonprodTemplates selects the non-production
// template path (memkm's CertificateTemplate, which clones the predecessor certificate) instead of
// the production one (rotate.GoogleCertificateTemplate).
type verifKM struct {
	signer           *verifSigner
	faults           bool
	nonprodTemplates bool
	created          []string
	destroyed        []string
	nextVersion      int
	rootName         string
}

func (m *verifKM) newKey(name string) {
	m.signer.keys = append(m.signer.keys, &verifKey{name: name, live: true, pub: &rsa.PublicKey{E: len(m.signer.keys) + 3}})
	m.created = append(m.created, name)
}

func (m *verifKM) CreateFirstSigningKey(ctx context.Context) (string, error) {
	if m.faults && verifFault("fail_create_first") {
		return "", verifErrFault
	}
	m.nextVersion++
	name := "psk_" + string(rune('0'+m.nextVersion))
	m.newKey(name)
	return name, nil
}

func (m *verifKM) CreateNewSigningKeyVersion(ctx context.Context) (string, error) {
	if m.faults && verifFault("fail_create_version") {
		return "", verifErrFault
	}
	m.nextVersion++
	name := "psk_" + string(rune('0'+m.nextVersion))
	m.newKey(name)
	return name, nil
}

func (m *verifKM) CreateNewRootKey(ctx context.Context) (string, error) {
	if m.faults && verifFault("fail_create_root") {
		return "", verifErrFault
	}
	m.nextVersion++
	m.rootName = "root_" + string(rune('0'+m.nextVersion))
	m.newKey(m.rootName)
	return m.rootName, nil
}

func (m *verifKM) CertificateTemplate(ctx context.Context, issuer *x509.Certificate, subjectPubKey any) (*x509.Certificate, error) {
	if m.faults && verifFault("fail_template") {
		return nil, verifErrFault
	}
	if m.nonprodTemplates {
		return (&memkm.T{}).CertificateTemplate(ctx, issuer, subjectPubKey)
	}
	return rotate.GoogleCertificateTemplate(ctx, issuer, subjectPubKey)
}

func (m *verifKM) DestroyKeyVersion(ctx context.Context, keyVersionName string) error {
	if m.faults && verifFault("fail_destroy") {
		return verifErrFault
	}
	if k := m.signer.find(keyVersionName); k != nil {
		k.live = false
	}
	m.destroyed = append(m.destroyed, keyVersionName)
	verifEvents = append(verifEvents, "destroy:"+keyVersionName)
	return nil
}

func (m *verifKM) Wipeout(ctx context.Context) error {
	for _, k := range m.signer.keys {
		k.live = false
	}
	return nil
}

var _ keys.ManagerInterface = (*verifKM)(nil)

// ---- object store ----

type verifObject struct {
	name string
	data []byte
}

type verifWrite struct {
	name string
	data []byte
}

type verifStorage struct {
	objects []verifObject
	log     []verifWrite // every completed object write, in order
	faults  bool
}

func (s *verifStorage) find(name string) int {
	for i := range s.objects {
		if s.objects[i].name == name {
			return i
		}
	}
	return -1
}

func (s *verifStorage) put(name string, data []byte) {
	if i := s.find(name); i >= 0 {
		s.objects[i].data = data
		return
	}
	s.objects = append(s.objects, verifObject{name, data})
}

type verifReader struct{ data []byte }

func (r *verifReader) Read(p []byte) (int, error) { return 0, io.EOF }
func (r *verifReader) Close() error               { return nil }

func verifReadAll(r io.Reader) ([]byte, error) {
	vr, ok := r.(*verifReader)
	if !ok {
		return nil, verifErrFault
	}
	return vr.data, nil
}

type verifWriter struct {
	s      *verifStorage
	name   string
	buf    []byte
	failed bool
}

func (w *verifWriter) Write(p []byte) (int, error) {
	if w.s.faults && verifFault("fail_write") {
		w.failed = true
		return 0, verifErrFault
	}
	w.buf = append(w.buf, p...)
	return len(p), nil
}

func (w *verifWriter) Close() error {
	if w.failed {
		return nil
	}
	if w.s.faults && verifFault("fail_close") {
		return verifErrFault
	}
	w.s.put(w.name, w.buf)
	w.s.log = append(w.s.log, verifWrite{w.name, w.buf})
	verifEvents = append(verifEvents, "write:"+w.name)
	return nil
}

func (s *verifStorage) Reader(ctx context.Context, bucket, object string) (io.ReadCloser, error) {
	if s.faults && verifFault("fail_reader") {
		return nil, verifErrFault
	}
	i := s.find(object)
	if i < 0 {
		return nil, verifErrNotExist
	}
	return &verifReader{data: s.objects[i].data}, nil
}

func (s *verifStorage) Exists(ctx context.Context, bucket, object string) (bool, error) {
	if s.faults && verifFault("fail_exists") {
		return false, verifErrFault
	}
	return s.find(object) >= 0, nil
}

func (s *verifStorage) Writer(ctx context.Context, bucket, object string) (io.WriteCloser, error) {
	if s.faults && verifFault("fail_writer") {
		return nil, verifErrFault
	}
	return &verifWriter{s: s, name: object}, nil
}

func (s *verifStorage) IsNotExists(err error) bool { return err == verifErrNotExist }
func (s *verifStorage) EnsureBucketExists(ctx context.Context, bucket string) error {
	if s.faults && verifFault("fail_bucket") {
		return verifErrFault
	}
	return nil
}
func (s *verifStorage) Wipeout(ctx context.Context, bucket string) error {
	s.objects = nil
	return nil
}

// ---- abstract manifest serialisation (injective) ----

type verifManifestSnap struct {
	root, primary string
	keys, paths   []string
}

var verifManifestReg []verifManifestSnap

func verifManifestMarshalImpl(m proto.Message) ([]byte, error) {
	mm := m.(*cpb.GCECertificateManifest)
	snap := verifManifestSnap{root: mm.PrimaryRootKeyVersionName, primary: mm.PrimarySigningKeyVersionName}
	for _, e := range mm.Entries {
		snap.keys = append(snap.keys, e.KeyVersionName)
		snap.paths = append(snap.paths, e.ObjectPath)
	}
	verifManifestReg = append(verifManifestReg, snap)
	return []byte{0x3A, byte(len(verifManifestReg))}, nil
}

func verifManifestMarshal(o prototext.MarshalOptions, m proto.Message) ([]byte, error) {
	return verifManifestMarshalImpl(m)
}

func verifManifestUnmarshal(b []byte, m proto.Message) error {
	mm := m.(*cpb.GCECertificateManifest)
	if len(b) != 2 || b[0] != 0x3A {
		return verifErrFault
	}
	snap := verifManifestReg[int(b[1])-1]
	mm.PrimaryRootKeyVersionName, mm.PrimarySigningKeyVersionName = snap.root, snap.primary
	for i := range snap.keys {
		mm.Entries = append(mm.Entries, &cpb.GCECertificateManifest_Entry{KeyVersionName: snap.keys[i], ObjectPath: snap.paths[i]})
	}
	return nil
}
