package main

import (
	"encoding/json"
	"flag"
	"fmt"
	"os"
	"path/filepath"
	"regexp"
	"sort"
	"strings"
	"time"

	"golang.org/x/tools/go/packages"
	"golang.org/x/tools/go/ssa"
	"golang.org/x/tools/go/ssa/ssautil"
)

type Result struct {
	Entry        string                   `json:"entry"`
	Pkg          string                   `json:"pkg"`
	Verdict      string                   `json:"verdict"` // pass | violation | inconclusive
	Findings     []Finding                `json:"findings"`
	Inconclusive []string                 `json:"inconclusive"`
	Paths        int                      `json:"paths"`
	Branches     int                      `json:"branches"`
	Queries      int                      `json:"queries"`
	SolverS      float64                  `json:"solver_s"`
	LoadS        float64                  `json:"load_s"`
	ExecS        float64                  `json:"exec_s"`
	Reached      map[string]int           `json:"reached"`
	Asserts      map[string]int           `json:"asserts"`
	Functions    []string                 `json:"functions"`
	Stubs        []string                 `json:"stubs"`
	Assumes      []string                 `json:"assumes"`
	Stats        map[string]int           `json:"stats"`
	Backends     map[string]int           `json:"backends"`
	Witnesses    []map[string]interface{} `json:"witnesses"`
	Unwind       int                      `json:"unwind"`
}

var cutRe = regexp.MustCompile(`(?m)^//verif:cut\s+(\S+)\s+(\S+)\s*$`)

func main() {
	dir := flag.String("dir", "/repo", "module directory to load from")
	pkgPat := flag.String("pkg", "", "package pattern relative to -dir (e.g. ./ovmf)")
	harness := flag.String("harness", "", "comma-separated harness files to overlay into the package")
	entry := flag.String("entry", "", "entry function")
	unwind := flag.Int("unwind", 32, "default bound on symbolic decisions per loop head")
	out := flag.String("out", "", "write JSON result here")
	maxfind := flag.Int("maxfind", 8, "stop after n findings")
	maxsteps := flag.Int("maxsteps", 20000000, "per-path instruction budget")
	merge := flag.Bool("merge", true, "merge states at joins")
	mergeBud := flag.Int("mergebudget", 4000, "lookahead budget (instructions) per merge attempt")
	pref := flag.String("solver", "z3", "primary back end: z3 | cvc5int")
	tmo := flag.Int("timeout", 3000, "primary solver per-query timeout (ms)")
	ftmo := flag.Int("ftimeout", 30, "fallback per-query timeout (s)")
	cross := flag.Bool("cross", false, "cross-check discharged assertions with a second solver")
	witn := flag.Int("witnesses", 3, "reachability witnesses to emit")
	verbose := flag.Bool("v", false, "verbose")
	slow := flag.String("slowdir", "", "dump slow/unknown queries here")
	cutgenDir := flag.String("cutgen", "", "write hook-carrying copies of the source files of all cut callees to this directory (for native replays) and exit")
	tags := flag.String("tags", "", "build tags for loading (e.g. purego selects the pure-Go variants of dependencies)")
	maxtime := flag.Int("maxtime", 0, "stop exploring after this many seconds (inconclusive)")
	flag.Parse()

	t0 := time.Now()
	overlay := map[string][]byte{}
	pdir := filepath.Join(*dir, strings.TrimPrefix(*pkgPat, "./"))
	var cutSpecs [][2]string
	for _, h := range strings.Split(*harness, ",") {
		if h == "" {
			continue
		}
		src, err := os.ReadFile(h)
		if err != nil {
			fatal("read harness: %v", err)
		}
		overlay[filepath.Join(pdir, "zz_verif_"+filepath.Base(h))] = src
		for _, m := range cutRe.FindAllStringSubmatch(string(src), -1) {
			cutSpecs = append(cutSpecs, [2]string{m[1], m[2]})
		}
	}
	env := append(os.Environ(), "GOFLAGS=", "GOPROXY=off", "GOSUMDB=off", "GOTOOLCHAIN=local")
	cfg := &packages.Config{Mode: packages.LoadAllSyntax, Dir: *dir, Env: env, Overlay: overlay}
	if *tags != "" {
		cfg.BuildFlags = []string{"-tags=" + *tags}
	}
	pkgs, err := packages.Load(cfg, *pkgPat)
	if err != nil {
		fatal("load: %v", err)
	}
	if packages.PrintErrors(pkgs) > 0 {
		os.Exit(2)
	}
	prog, spkgs := ssautil.AllPackages(pkgs, ssa.InstantiateGenerics)
	prog.Build()
	tLoad := time.Since(t0)
	hp := spkgs[0]
	fn := hp.Func(*entry)
	if fn == nil {
		fatal("no entry function %s in %s", *entry, hp.Pkg.Path())
	}
	if *cutgenDir != "" {
		cutgen(prog, hp, cutSpecs, *cutgenDir)
		return
	}
	sol := NewSolver(*pref, *tmo, *ftmo)
	sol.CrossAll = *cross
	sol.SlowDir = *slow
	e := &Engine{Prog: prog, Solver: sol, Base: map[int]Value{}, globals: map[*ssa.Global]int{}, inited: map[*ssa.Package]bool{},
		Cuts: map[string]*ssa.Function{}, HarnessP: hp, Stats: map[string]int{}, Reached: map[string]int{}, AssertsN: map[string]int{},
		FuncsHit: map[*ssa.Function]bool{}, Stubs: map[string]bool{}, Assumes: map[string]bool{}, MaxFind: *maxfind, MaxSteps: *maxsteps,
		DefUnw: *unwind, MergeOn: *merge, MergeBud: *mergeBud, arrNames: map[string]*Term{}, arrLens: map[string]*Term{}, Verbose: *verbose,
		joinMemo: map[*ssa.BasicBlock]*joinInfo{}, BranchSites: map[string]int{}}
	for _, c := range cutSpecs {
		h := hp.Func(c[1])
		if h == nil {
			fatal("cut target %s: no harness function %s", c[0], c[1])
		}
		e.Cuts[c[0]] = h
	}
	// default model cuts: library functions replaced by Go models from the runtime file, if present
	for lib, model := range defaultModels {
		if _, ok := e.Cuts[lib]; ok {
			continue
		}
		if h := hp.Func(model); h != nil {
			e.Cuts[lib] = h
		}
	}
	if *maxtime > 0 {
		e.Deadline = time.Now().Add(time.Duration(*maxtime) * time.Second)
	}
	t1 := time.Now()
	st := &State{Heap: map[int]Value{}, Unwind: *unwind}
	func() {
		defer func() {
			if r := recover(); r != nil {
				if u, ok := r.(unsupported); ok {
					e.incon("engine: " + u.msg)
					return
				}
				panic(r)
			}
		}()
		e.ensureInit(hp)
		e.pushFrame(st, fn, nil, nil, nil)
		e.explore([]*State{st}, nil, nil, 0)
	}()
	res := Result{Entry: *entry, Pkg: hp.Pkg.Path(), Findings: e.Findings, Inconclusive: e.Incon, Paths: e.Paths, Branches: e.Branches,
		Queries: sol.Queries, SolverS: sol.Time.Seconds(), LoadS: tLoad.Seconds(), Reached: e.Reached, Asserts: e.AssertsN,
		Stats: e.Stats, Backends: sol.ByBackend, Unwind: *unwind}
	res.Witnesses = e.witnesses(*witn)
	res.ExecS = time.Since(t1).Seconds()
	for f := range e.FuncsHit {
		if f.Pkg != nil && strings.HasPrefix(f.Pkg.Pkg.Path(), "github.com/google/gce-tcb-verifier") && !strings.HasPrefix(f.Name(), "verif") && !strings.HasPrefix(f.Name(), "Verif") && !isHarnessRecv(f) {
			res.Functions = append(res.Functions, f.String()+" @"+e.pos(f.Pos()))
		}
	}
	sort.Strings(res.Functions)
	for k := range e.Stubs {
		res.Stubs = append(res.Stubs, k)
	}
	sort.Strings(res.Stubs)
	for k := range e.Assumes {
		res.Assumes = append(res.Assumes, k)
	}
	sort.Strings(res.Assumes)
	var real []Finding
	for _, f := range e.Findings {
		if f.Kind == "panic" && e.PanicOK {
			continue
		}
		real = append(real, f)
	}
	res.Findings = real
	switch {
	case len(real) > 0:
		res.Verdict = "violation"
	case len(e.Incon) > 0:
		res.Verdict = "inconclusive"
	default:
		res.Verdict = "pass"
	}
	if res.Findings == nil {
		res.Findings = []Finding{}
	}
	if res.Inconclusive == nil {
		res.Inconclusive = []string{}
	}
	sol.Close()
	js, _ := json.MarshalIndent(res, "", " ")
	if *out != "" {
		os.WriteFile(*out, js, 0644)
	}
	fmt.Printf("%s %s: %s paths=%d branches=%d queries=%d(cache %d, fallback %d, unknown %d) solver=%.1fs load=%.1fs exec=%.1fs merges=%d findings=%d incon=%d\n",
		res.Pkg, res.Entry, res.Verdict, res.Paths, res.Branches, sol.Queries, sol.CacheHits, sol.Fallbacks, sol.Unknowns, res.SolverS, res.LoadS, res.ExecS, e.Stats["merges"], len(real), len(e.Incon))
	if *verbose || *out == "" {
		for _, f := range real {
			fmt.Printf("  FINDING %s: %s at %s in %s\n    model=%v\n", f.Kind, f.Msg, f.Pos, f.Func, compactModel(f.Model))
		}
		for _, i := range e.Incon {
			fmt.Printf("  INCONCLUSIVE: %s\n", i)
		}
		fmt.Printf("  reached=%v stats=%v backends=%v\n", e.Reached, e.Stats, sol.ByBackend)
		type kv struct {
			k string
			v int
		}
		var sites []kv
		for k, v := range e.BranchSites {
			sites = append(sites, kv{k, v})
		}
		sort.Slice(sites, func(i, j int) bool { return sites[i].v > sites[j].v })
		for i, x := range sites {
			if i >= 8 {
				break
			}
			fmt.Printf("  hot branch %6d  %s\n", x.v, x.k)
		}
	}
}

func compactModel(m map[string]string) string {
	ks := make([]string, 0, len(m))
	for k := range m {
		ks = append(ks, k)
	}
	sort.Strings(ks)
	var sb strings.Builder
	for i, k := range ks {
		if i > 40 {
			sb.WriteString(" ...")
			break
		}
		fmt.Fprintf(&sb, " %s=%s", k, m[k])
	}
	return sb.String()
}

func fatal(format string, a ...interface{}) {
	fmt.Fprintf(os.Stderr, "gosym: "+format+"\n", a...)
	os.Exit(2)
}

// witnesses picks completed paths with distinct reach sets and evaluates their observations
// under a model, to be compared against a native run of the same harness.
func (e *Engine) witnesses(k int) []map[string]interface{} {
	var out []map[string]interface{}
	seen := map[string]bool{}
	for i := len(e.Finals) - 1; i >= 0 && len(out) < k; i-- {
		s := e.Finals[i]
		key := strings.Join(s.Reach, ",") + fmt.Sprint(len(s.Obs))
		if seen[key] {
			continue
		}
		seen[key] = true
		var evals []*Term
		type slot struct {
			name  string
			terms []*Term
			kind  string
		}
		var slots []slot
		ok := true
		for _, o := range s.Obs {
			sl := slot{name: o.Name}
			switch v := o.Val.(type) {
			case *Term:
				sl.terms = []*Term{v}
				sl.kind = "scalar"
				if v.Sort.Kind == 0 {
					sl.kind = "bool"
				}
			case StrV, SymStr:
				sl.terms, _ = strCells(v)
				sl.kind = "bytes"
			case SliceV:
				func() {
					defer func() {
						if r := recover(); r != nil {
							ok = false
						}
					}()
					sl.terms = e.bytesOfSlice(s, v)
				}()
				sl.kind = "bytes"
			default:
				ok = false
			}
			slots = append(slots, sl)
			for _, t := range sl.terms {
				if t.compound() {
					evals = append(evals, t)
				}
			}
		}
		if !ok {
			continue
		}
		var m map[string]string
		var arrays map[string][]int
		func() {
			defer func() {
				if r := recover(); r != nil {
					ok = false
				}
			}()
			m, arrays, ok = e.model(s, nil)
		}()
		if !ok {
			continue
		}
		var ev map[string]string
		if len(evals) > 0 {
			// pin the model and evaluate observation terms
			pc := append([]*Term(nil), s.PC...)
			for _, v := range varOrder {
				if lit, has := m[v.Name]; has && v.Sort.Kind != 2 {
					if u, ok := litToUint(lit); ok {
						if v.Sort.Kind == 0 {
							pc = append(pc, Eq(v, Bool(u != 0)))
						} else if v.Sort.Width <= 64 {
							pc = append(pc, Eq(v, BVUint(u, v.Sort.Width)))
						}
					}
				}
			}
			var ok2 bool
			ev, ok2 = e.Solver.Model(pc, nil, nil, nil, evals...)
			if !ok2 {
				continue
			}
		}
		val := func(t *Term) (uint64, bool) {
			if t.IsConst() {
				return t.Const.Uint64(), true
			}
			if t.Op == "var" {
				return litToUint(m[t.Name])
			}
			return litToUint(ev[fmt.Sprintf("eval:%d", t.ID)])
		}
		obs := []string{}
		for _, sl := range slots {
			switch sl.kind {
			case "bool":
				u, _ := val(sl.terms[0])
				obs = append(obs, fmt.Sprintf("%s=%v", sl.name, u != 0))
			case "scalar":
				u, _ := val(sl.terms[0])
				obs = append(obs, fmt.Sprintf("%s=%d", sl.name, u))
			default:
				bs := make([]byte, len(sl.terms))
				for i, t := range sl.terms {
					u, _ := val(t)
					bs[i] = byte(u)
				}
				obs = append(obs, fmt.Sprintf("%s=%x", sl.name, bs))
			}
		}
		out = append(out, map[string]interface{}{"model": m, "arrays": arrays, "reach": s.Reach, "obs": obs, "uf": e.ufTable(s.PC, m), "schedule": append([]int(nil), s.Sched...)})
	}
	return out
}
