package verify

// Environment stubs for the verify harnesses (C01, C02, C07, C09): protobuf decoding returns an
// arbitrary decoded message (or fails), certificate parsing returns an abstract certificate (or
// fails), chain validation and signature checking succeed or fail arbitrarily, and every call
// records what it was applied to, so that "accepted" can be tied to "checked, over these bytes,
// with this certificate, against these roots, at this time".

import (
	"crypto/x509"
	"errors"
	"time"

	epb "github.com/google/gce-tcb-verifier/proto/endorsement"
	"google.golang.org/protobuf/proto"
	tspb "google.golang.org/protobuf/types/known/timestamppb"
)

//verif:cut google.golang.org/protobuf/proto.Unmarshal verifUnmarshal
//verif:cut crypto/x509.ParseCertificate verifParseCert
//verif:cut (*crypto/x509.Certificate).Verify verifCertVerify
//verif:cut (*crypto/x509.Certificate).CheckSignature verifCheckSig

var verifErr = errors.New("verif: stub failure")

// one abstract world per harness run
type verifWorld struct {
	// the endorsement the adversary presents
	payload, signature []byte
	// what decoding the payload yields
	golden     *epb.VMGoldenMeasurement
	goldenOK   bool
	nilTime    bool
	certBytes  []byte
	cert       *x509.Certificate // certificate object returned for certBytes
	roots      *x509.CertPool
	now        time.Time
	outer      *epb.VMLaunchEndorsement // what decoding the serialized endorsement yields
	outerBytes []byte

	sigOK, chainOK             bool // ghost: the library's verdicts
	sigChecked, chainChecked   bool // recorded: a successful check on the right objects happened
	unmarshalCalls, parseCalls int
	yield                      func()
}

var vw *verifWorld

func verifUnmarshal(b []byte, m proto.Message) error {
	if vw.yield != nil {
		vw.yield()
	}
	vw.unmarshalCalls++
	switch mm := m.(type) {
	case *epb.VMGoldenMeasurement:
		if !verifSameSlice(b, vw.payload) || !vw.goldenOK {
			return verifErr
		}
		g := vw.golden
		mm.Timestamp, mm.ClSpec, mm.Commit, mm.Cert, mm.Digest, mm.SevSnp, mm.Tdx, mm.CaBundle = g.Timestamp, g.ClSpec, g.Commit, g.Cert, g.Digest, g.SevSnp, g.Tdx, g.CaBundle
		return nil
	case *epb.VMLaunchEndorsement:
		if vw.outer == nil || !verifSameSlice(b, vw.outerBytes) {
			return verifErr
		}
		mm.SerializedUefiGolden, mm.Signature = vw.outer.SerializedUefiGolden, vw.outer.Signature
		return nil
	}
	return verifErr
}

func verifParseCert(der []byte) (*x509.Certificate, error) {
	if vw.yield != nil {
		vw.yield()
	}
	vw.parseCalls++
	if !verifSameSlice(der, vw.certBytes) || verifNondetBool("parse_fails") {
		return nil, verifErr
	}
	return vw.cert, nil
}

func verifCertVerify(c *x509.Certificate, opts x509.VerifyOptions) ([][]*x509.Certificate, error) {
	if vw.yield != nil {
		vw.yield()
	}
	if c == vw.cert && opts.Roots == vw.roots && opts.Roots != nil && opts.CurrentTime == vw.now && vw.chainOK {
		vw.chainChecked = true
		return nil, nil
	}
	return nil, verifErr
}

func verifCheckSig(c *x509.Certificate, algo x509.SignatureAlgorithm, signed, sig []byte) error {
	if vw.yield != nil {
		vw.yield()
	}
	if c == vw.cert && algo == x509.SHA256WithRSAPSS && verifSameSlice(signed, vw.payload) && verifSameSlice(sig, vw.signature) && vw.sigOK {
		vw.sigChecked = true
		return nil
	}
	return verifErr
}

// verifOpt returns b[:n] with n symbolic in {0, len(b)}: "field absent or present" without
// forking on the heap shape.
func verifOpt(name string, b []byte) []byte {
	n := verifNondetInt(name)
	verifAssume(n == 0 || n == len(b), "optional bytes field is empty or full length")
	return b[:n]
}

// verifArbitraryGolden builds an arbitrary decoded golden measurement: every field fresh, every
// sub-message absent or present, measurement table with up to nmeas entries.
func verifArbitraryGolden(nmeas int, allowNilTime bool) *epb.VMGoldenMeasurement {
	g := &epb.VMGoldenMeasurement{}
	if !allowNilTime || verifNondetBool("has_timestamp") {
		g.Timestamp = &tspb.Timestamp{Seconds: int64(verifNondetU64("ts_sec")), Nanos: int32(verifNondetU32("ts_nanos"))}
	}
	g.ClSpec = verifNondetU64("clspec")
	g.Commit = verifOpt("commit_len", verifNondetBytes("commit", 1))
	g.Cert = verifOpt("cert_len", verifNondetBytes("cert", 2))
	g.Digest = verifNondetBytes("digest", 2)
	if verifNondetBool("has_sevsnp") {
		snp := &epb.VMSevSnp{}
		snp.SvsmMeasurement = verifOpt("svsm_len", verifNondetBytes("svsm", 48))
		if nmeas > 0 {
			snp.Measurements = map[uint32][]byte{}
			for i := 0; i < nmeas; i++ {
				snp.Measurements[verifNondetU32("vmsas")] = verifNondetBytes("meas", 48)
			}
		}
		g.SevSnp = snp
	}
	return g
}

func verifNewWorld(nmeas int, allowNilTime bool) *verifWorld {
	w := &verifWorld{}
	w.payload = verifNondetBytes("payload", 3)
	w.signature = verifNondetBytes("sig", 2)
	w.goldenOK = verifNondetBool("golden_decodes")
	w.golden = verifArbitraryGolden(nmeas, allowNilTime)
	w.certBytes = w.golden.Cert
	w.cert = &x509.Certificate{}
	w.roots = &x509.CertPool{}
	w.now = time.Unix(int64(verifNondetU32("now")), 0)
	w.sigOK = verifNondetBool("sig_valid")
	w.chainOK = verifNondetBool("chain_valid")
	vw = w
	return w
}
