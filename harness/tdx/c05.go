package tdx

import (
	"crypto/sha512"
	"encoding/binary"

	"github.com/google/gce-tcb-verifier/ovmf"
	"github.com/google/gce-tcb-verifier/ovmf/abi"
)

// C05 L1/L2: the MRTD stream of one memory region equals the TDX module's definition:
// per 4 KiB page a 128-byte MEM.PAGE.ADD record (ASCII tag, GPA little-endian at 16..23, zeros),
// and, for measured regions, sixteen MR.EXTEND records (tag, GPA of the 256-byte chunk) each
// followed by the chunk's 256 bytes. SHA-384 is an uninterpreted per-byte fold on both sides.

func verifRecord(tag string, gpa uint64) []byte {
	b := make([]byte, 128)
	copy(b, tag)
	binary.LittleEndian.PutUint64(b[16:], gpa)
	return b
}

func verifRegionStream(gpa uint64, data []byte, pages int, measured bool) []byte {
	var s []byte
	for p := 0; p < pages; p++ {
		page := gpa + uint64(p)*4096
		s = append(s, verifRecord("MEM.PAGE.ADD", page)...)
		if measured {
			for j := 0; j < 16; j++ {
				off := p*4096 + j*256
				s = append(s, verifRecord("MR.EXTEND", page+uint64(j)*256)...)
				s = append(s, data[off:off+256]...)
			}
		}
	}
	return s
}

func verifC05Region(pages int, measureAll bool) {
	gpa := verifNondetU64("gpa")
	verifAssume(gpa%4096 == 0 && gpa < 1<<52, "region start is page-aligned and inside the guest-physical space")
	attrs := verifNondetU32("attributes")
	data := verifNondetBytes("data", pages*4096)
	region := &ovmf.MaterialGuestPhysicalRegion{GPR: ovmf.GuestPhysicalRegion{Start: abi.EFIPhysicalAddress(gpa), Length: uint64(pages) * 4096}, HostBuffer: data, TDVFAttributes: attrs}
	var m *Measurement
	if measureAll {
		m = NewMeasurementTDHOBBug()
	} else {
		m = NewMeasurement()
	}
	err := m.InitMemoryRegion(region)
	verifAssert(err == nil, "a page-aligned region with a matching buffer is accepted")
	got := m.Finalize()
	measured := measureAll || attrs&abi.TDXMetadataAttributeExtendMR != 0
	want := sha512.Sum384(verifRegionStream(gpa, data, pages, measured))
	verifAssert(got == want, "region measurement = SHA-384 of the page-add / extend record stream")
	if measured {
		verifReach("measured")
	} else {
		verifReach("unmeasured")
	}
	verifObserve("b0", got[0] == want[0])
	verifReach("end")
}

func VerifC05Region1()    { verifC05Region(1, false) }
func VerifC05Region2()    { verifC05Region(2, false) }
func VerifC05Region1All() { verifC05Region(1, true) }

// An unmeasured region needs no buffer; a misaligned region is refused.
func VerifC05RegionRefusals() {
	gpa := verifNondetU64("gpa")
	length := verifNondetU64("length")
	verifAssume(length <= 3*4096, "region length bounded")
	region := &ovmf.MaterialGuestPhysicalRegion{GPR: ovmf.GuestPhysicalRegion{Start: abi.EFIPhysicalAddress(gpa), Length: length}}
	m := NewMeasurement()
	verifUnwindCut(64)
	err := m.InitMemoryRegion(region)
	if gpa%4096 != 0 || length%4096 != 0 {
		verifAssert(err != nil, "a region that is not page-aligned is refused")
		verifReach("refused")
	}
	verifReach("end")
}

// C05 L5: RAM banks for a machine shape: [0,3 GiB), the 2 MiB TDVF window below 4 GiB, and
// contiguous banks from 4 GiB that sum to size-3GiB, each node's bank capped by the per-node size.
func verifCheckBanks(size, nodes, max int, banks []ovmf.GuestPhysicalRegion) {
	verifAssert(len(banks) == 2+nodes, "two low banks plus one bank per node")
	verifAssert(banks[0].Start == 0 && banks[0].Length == 3*gib, "first bank is the low 3 GiB")
	verifAssert(uint64(banks[1].Start) == 4*gib-2*mib && banks[1].Length == 2*mib, "second bank is the 2 MiB TDVF window below 4 GiB")
	next := uint64(4 * gib)
	total := uint64(0)
	for i := 2; i < len(banks); i++ {
		verifAssert(uint64(banks[i].Start) == next, "high banks are contiguous from 4 GiB")
		verifAssert(banks[i].Length <= uint64(max)*gib, "no bank exceeds the per-node size")
		next += banks[i].Length
		total += banks[i].Length
	}
	verifAssert(total == uint64(size)*gib-3*gib, "high banks sum to the shape's RAM minus the low 3 GiB")
}

func VerifC05Shapes() {
	for name, d := range shapeDesc {
		banks, err := machineTypeToRAMBanks(name)
		verifAssert(err == nil, "every listed shape has banks")
		verifCheckBanks(d.size, d.nodes, d.maxSizePerNode, banks)
	}
	_, err := machineTypeToRAMBanks("no-such-shape")
	verifAssert(err != nil, "an unknown shape is refused")
	verifReach("end")
}

func verifC05SymShape(nodes int) {
	size := int(verifNondetU16("size_gib"))
	max := int(verifNondetU16("max_per_node_gib"))
	verifAssume(size >= 3 && max >= 3 && size <= max*nodes && size <= 4096 && max <= 1024, "shape constants in the table's range: the shape fits its nodes")
	// the first node also hosts the low 3 GiB
	verifAssume(size-3 <= (max-3)+(nodes-1)*max, "RAM fits the nodes given the first node holds the low 3 GiB")
	banks := regionsForShape(numaDesc{size: size, nodes: nodes, maxSizePerNode: max})
	verifCheckBanks(size, nodes, max, banks)
	verifReach("end")
}

func VerifC05SymShape1() { verifC05SymShape(1) }
func VerifC05SymShape2() { verifC05SymShape(2) }
func VerifC05SymShape4() { verifC05SymShape(4) }
