#!/bin/bash
# Runs every registered check (quick by default) sequentially and prints one summary line each;
# non-zero exit if any check reported a violation or an inconclusive obligation.
tier=${1:-quick}
cd "$(dirname "$0")/.."
bad=0
for id in $(python3 -c "import json;print(' '.join(c['property_id'] for c in json.load(open('MANIFEST.json'))['checks']))"); do
  out=$(./check $id $tier 2>&1)
  line=$(echo "$out" | grep "^$id $tier:" | tail -1)
  echo "$line"
  echo "$out" | grep -E "^(VIOLATION|INCONCLUSIVE|RETRY)" | cut -c1-300
  if echo "$out" | grep -qE "^(VIOLATION|INCONCLUSIVE)"; then bad=1; fi
done
exit $bad
