package gcetcbendorsement

import (
	"bytes"
	"context"

	"github.com/google/gce-tcb-verifier/extract"
	epb "github.com/google/gce-tcb-verifier/proto/endorsement"
	"github.com/google/gce-tcb-verifier/sev"
	cpb "github.com/google/go-sev-guest/proto/check"
	spb "github.com/google/go-sev-guest/proto/sevsnp"
	sevvalidate "github.com/google/go-sev-guest/validate"
	tcpb "github.com/google/go-tdx-guest/proto/checkconfig"
	tpb "github.com/google/go-tdx-guest/proto/tdx"
	tdxvalidate "github.com/google/go-tdx-guest/validate"
	tpmpb "github.com/google/go-tpm-tools/proto/attest"
)

// C01/C02 (attestation validation entry points): SevValidate and TdxValidate over the same
// abstract world as the verify library harness. Third-party validators are contract stubs: the
// SEV-SNP one runs the certificate-table validators it is given (as go-sev-guest does) and
// compares the policy measurement; the TDX one applies the documented allow-list rule (an empty
// MRTD allow-list is unchecked).

//verif:cut github.com/google/go-sev-guest/validate.SnpAttestation verifSnpAttestation
//verif:cut github.com/google/go-sev-guest/validate.PolicyToOptions verifSevPolicyToOptions
//verif:cut github.com/google/go-tdx-guest/validate.TdxQuote verifTdxQuote
//verif:cut github.com/google/go-tdx-guest/validate.PolicyToOptions verifTdxPolicyToOptions
//verif:cut github.com/google/gce-tcb-verifier/extract.Attestation verifExtractAttestation
//verif:cut github.com/google/gce-tcb-verifier/extract.Endorsement verifExtractEndorsement
//verif:cut encoding/pem.Decode verifPemDecode

var (
	verifTdxQuoteValue *tpb.QuoteV4
	verifExtracted     []byte
	verifExtractFails  bool
	verifValidatorRan  bool
)

func verifSevPolicyToOptions(policy *cpb.Policy) (*sevvalidate.Options, error) {
	if verifNondetBool("policy_to_options_fails") {
		return nil, verifErr
	}
	return &sevvalidate.Options{Measurement: policy.GetMeasurement()}, nil
}

func verifSnpAttestation(att *spb.Attestation, options *sevvalidate.Options) error {
	if verifNondetBool("other_report_checks_fail") {
		return verifErr
	}
	if len(options.Measurement) != 0 && !bytes.Equal(att.GetReport().GetMeasurement(), options.Measurement) {
		return verifErr
	}
	// certTableOptions of go-sev-guest: run every configured validator over its table entry
	extras := att.GetCertificateChain().GetExtras()
	for key, opt := range options.CertTableOptions {
		if opt.Validate == nil {
			return verifErr
		}
		verifValidatorRan = true
		if err := opt.Validate(att, extras[key]); err != nil {
			if opt.Kind == sevvalidate.CertEntryRequire {
				return err
			}
		}
	}
	return nil
}

func verifTdxPolicyToOptions(policy *tcpb.Policy) (*tdxvalidate.Options, error) {
	if verifNondetBool("policy_to_options_fails") {
		return nil, verifErr
	}
	return &tdxvalidate.Options{TdQuoteBodyOptions: tdxvalidate.TdQuoteBodyOptions{AnyMrTd: policy.GetTdQuoteBodyPolicy().GetAnyMrTd()}}, nil
}

func verifTdxQuote(quote any, options *tdxvalidate.Options) error {
	q, ok := quote.(*tpb.QuoteV4)
	if !ok || verifNondetBool("other_quote_checks_fail") {
		return verifErr
	}
	allowed := options.TdQuoteBodyOptions.AnyMrTd
	if len(allowed) == 0 {
		return nil // documented: not checked if nil
	}
	for _, a := range allowed {
		if bytes.Equal(a, q.GetTdQuoteBody().GetMrTd()) {
			return nil
		}
	}
	return verifErr
}

func verifExtractAttestation(quote []byte) (*tpmpb.Attestation, error) {
	if verifTdxQuoteValue == nil {
		return nil, verifErr
	}
	return &tpmpb.Attestation{TeeAttestation: &tpmpb.Attestation_TdxAttestation{TdxAttestation: verifTdxQuoteValue}}, nil
}

func verifExtractEndorsement(opts *extract.Options) ([]byte, error) {
	if verifExtractFails {
		return nil, verifErr
	}
	return verifExtracted, nil
}

func VerifC01Sev() {
	w := verifNewWorld(1, false)
	w.outerBytes = verifNondetBytes("outer", 2)
	if verifNondetBool("outer_decodes") {
		w.outer = &epb.VMLaunchEndorsement{SerializedUefiGolden: w.payload, Signature: w.signature}
	}
	opts := &SevValidateOptions{RootsOfTrust: w.roots, Now: w.now, ExpectedLaunchVmsas: verifNondetU32("expected_vmsas"),
		Overwrite: verifNondetBool("overwrite"), TestonlyForceGCS: verifNondetBool("force_gcs")}
	if verifNondetBool("roots_nil") {
		opts.RootsOfTrust = nil
	}
	if verifNondetBool("preparsed") {
		opts.Endorsement = &epb.VMLaunchEndorsement{SerializedUefiGolden: w.payload, Signature: w.signature}
		// The caller names the endorsement to validate against; what the platform delivers in the
		// certificate table may then be a different, perfectly genuine endorsement. Acceptance must
		// still rest on checks of the one the caller named (its policy is what gets enforced).
		if w.outer != nil && verifNondetBool("table_holds_another_endorsement") {
			d := verifAddDecoy(w, 1)
			w.outer = &epb.VMLaunchEndorsement{SerializedUefiGolden: d.payload, Signature: d.signature}
		}
	}
	g := &verifGetter{blob: w.outerBytes, fail: verifNondetBool("get_fails")}
	if verifNondetBool("has_getter") {
		opts.Getter = g
	}
	m := verifNondetBytes("report_meas", 48)
	att := &spb.Attestation{Report: &spb.Report{Measurement: m}}
	if verifNondetBool("blob_in_table") {
		att.CertificateChain = &spb.CertificateChain{Extras: map[string][]byte{sev.GCEFwCertGUID: w.outerBytes}}
	}
	err := SevValidate(context.Background(), att, opts)
	verifObserve("accepted", err == nil)
	if err == nil {
		verifReach("accepted")
		verifAssert(w.sigChecked && w.sigOK, "SEV-SNP validation accepts only after a valid signature check over the carried golden bytes")
		verifAssert(w.chainChecked && w.chainOK, "SEV-SNP validation accepts only after the certificate chained to the caller's roots at the caller's time")
		verifAssert(verifValidatorRan, "the endorsement validator ran as a required certificate-table validator")
		verifAssert(verifSevAllowed(w.golden, opts.ExpectedLaunchVmsas, m), "accepted report measurement is endorsed for the named VMSA count")
	} else {
		verifReach("rejected")
	}
	verifReach("end")
}

func verifSevAllowed(g *epb.VMGoldenMeasurement, vmsas uint32, m []byte) bool {
	if g.SevSnp == nil {
		return false
	}
	snp := g.SevSnp
	svsm := len(snp.SvsmMeasurement) > 0 && bytes.Equal(snp.SvsmMeasurement, m)
	if vmsas == 0 {
		ok := bytes.Equal(m, snp.SvsmMeasurement)
		for _, v := range snp.Measurements {
			ok = ok || bytes.Equal(v, m)
		}
		return ok
	}
	v, has := snp.Measurements[vmsas]
	return (vmsas == 1 && svsm) || (has && bytes.Equal(v, m))
}

type verifGetter struct {
	calls int
	urls  []string
	blob  []byte
	fail  bool
}

func (g *verifGetter) Get(url string) ([]byte, error) {
	g.calls++
	g.urls = append(g.urls, url)
	if g.fail {
		return nil, verifErr
	}
	return g.blob, nil
}

func verifTdxAllowed(g *epb.VMGoldenMeasurement, ram int, mrtd []byte) bool {
	if g.Tdx == nil {
		return false
	}
	for _, r := range g.Tdx.Measurements {
		if (ram == 0 || uint64(r.RamGib) == uint64(ram)) && ram >= 0 && bytes.Equal(r.Mrtd, mrtd) {
			return true
		}
	}
	return false
}

func verifC01Tdx(rows int) {
	verifTdxRows = rows
	w := verifNewWorld(0, false)
	w.outerBytes = verifNondetBytes("outer", 2)
	if verifNondetBool("outer_decodes") {
		w.outer = &epb.VMLaunchEndorsement{SerializedUefiGolden: w.payload, Signature: w.signature}
	}
	verifExtracted = w.outerBytes
	verifExtractFails = verifNondetBool("extract_fails")
	mrtd := verifNondetBytes("quote_mrtd", 48)
	verifTdxQuoteValue = &tpb.QuoteV4{TdQuoteBody: &tpb.TDQuoteBody{MrTd: mrtd}}
	ram := verifNondetInt("ram_gib_requested")
	opts := &TdxValidateOptions{RootsOfTrust: w.roots, Now: w.now, ExpectedRAMGiB: ram, Overwrite: verifNondetBool("overwrite")}
	if verifNondetBool("roots_nil") {
		opts.RootsOfTrust = nil
	}
	if verifNondetBool("preparsed") {
		opts.Endorsement = &epb.VMLaunchEndorsement{SerializedUefiGolden: w.payload, Signature: w.signature}
	}
	err := TdxValidate(context.Background(), []byte{1}, opts)
	verifObserve("accepted", err == nil)
	if err == nil {
		verifReach("accepted")
		verifAssert(w.sigChecked && w.sigOK, "TDX validation accepts only after a valid signature check over the carried golden bytes")
		verifAssert(w.chainChecked && w.chainOK, "TDX validation accepts only after the certificate chained to the caller's roots at the caller's time")
		verifAssert(verifTdxAllowed(w.golden, ram, mrtd), "accepted quote MRTD is endorsed for the named RAM size")
	} else {
		verifReach("rejected")
	}
	verifReach("end")
}

func VerifC01Tdx0() { verifC01Tdx(0) }
func VerifC01Tdx1() { verifC01Tdx(1) }
func VerifC01Tdx2() { verifC01Tdx(2) }

func VerifC01Tdx3() { verifC01Tdx(3) }
