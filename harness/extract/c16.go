package extract

import (
	"errors"

	"github.com/google/gce-tcb-verifier/eventlog"
	"github.com/google/gce-tcb-verifier/extract/extractsev"
	"github.com/google/gce-tcb-verifier/extract/extracttdx"
	"github.com/google/gce-tcb-verifier/sev"
	"github.com/google/gce-tcb-verifier/verify"
	spb "github.com/google/go-sev-guest/proto/sevsnp"
	tpb "github.com/google/go-tdx-guest/proto/tdx"
	tpmpb "github.com/google/go-tpm-tools/proto/attest"
	"github.com/google/uuid"
)

// C16 (a): object names and URLs are an injective, technology-separated function of the
// measurement. hex.EncodeToString and Sprintf are modelled exactly (hex digits are ite terms of
// the nibbles), so string equality is decided by the solver over all 48-byte values.

func verifEqBytes(a, b []byte) bool {
	if len(a) != len(b) {
		return false
	}
	ok := true
	for i := range a {
		ok = ok && a[i] == b[i]
	}
	return ok
}

func VerifC16Names() {
	m1, m2 := verifNondetBytes("m1", 48), verifNondetBytes("m2", 48)
	s1 := extractsev.GCETcbObjectName(sev.GCEUefiFamilyID, m1)
	s2 := extractsev.GCETcbObjectName(sev.GCEUefiFamilyID, m2)
	t1 := extracttdx.GCETcbObjectName(m1)
	t2 := extracttdx.GCETcbObjectName(m2)
	verifAssert(s1 != s2 || verifEqBytes(m1, m2), "SEV-SNP object name is injective in the measurement")
	verifAssert(t1 != t2 || verifEqBytes(m1, m2), "TDX object name is injective in the measurement")
	verifAssert(s1 != t1 && s1 != t2, "SEV-SNP and TDX names never coincide")
	verifAssert(verify.GCETcbURL(s1) == "https://storage.googleapis.com/gce_tcb_integrity/"+s1, "the URL is the bucket prefix followed by the object name")
	verifAssert(verify.GCETcbURL(s1) != verify.GCETcbURL(s2) || verifEqBytes(m1, m2), "the URL is injective in the measurement")
	verifAssert(len(s1) == len("ovmf_x64_csm/sevsnp/")+96+len(".binarypb"), "a full-length measurement gives a full-length name")
	// different lengths give different names
	for _, n := range []int{0, 1, 47, 49} {
		short := extractsev.GCETcbObjectName(sev.GCEUefiFamilyID, verifNondetBytes("short", n))
		verifAssert(short != s1, "a measurement of another length never has the name of a 48-byte one")
	}
	verifObserve("len", len(s1))
	verifReach("end")
}

// C16 (c): extraction is local-first and only fetches URLs derived from full-length measurements.

//verif:cut github.com/google/gce-tcb-verifier/extract.elFromFile verifElFromFile
//verif:cut github.com/google/gce-tcb-verifier/extract.Attestation verifAttestation

var verifErrSrc = errors.New("verif: source unavailable")

type verifGetter struct {
	urls []string
	blob []byte
	fail bool
}

func (g *verifGetter) Get(url string) ([]byte, error) {
	g.urls = append(g.urls, url)
	if g.fail {
		return nil, verifErrSrc
	}
	return g.blob, nil
}

type verifVarReader struct {
	calls int
	blob  []byte
	fail  bool
}

func (r *verifVarReader) ReadVariable(guid uuid.UUID, name []uint8) ([]byte, error) {
	r.calls++
	if r.fail {
		return nil, verifErrSrc
	}
	return r.blob, nil
}

type verifProvider struct {
	calls int
	quote []byte
	fail  bool
}

func (p *verifProvider) IsSupported() bool { return true }
func (p *verifProvider) GetRawQuote(rd [64]byte) ([]uint8, error) {
	p.calls++
	if p.fail {
		return nil, verifErrSrc
	}
	return p.quote, nil
}

// scenario state for the cut sources
var (
	verifEvLog      *eventlog.CryptoAgileLog
	verifEvLogFails bool
	verifQuotes     map[byte]*tpmpb.Attestation // keyed by first byte of the quote bytes
	verifQuoteErrs  map[byte]bool
)

func verifElFromFile(path string) (*eventlog.CryptoAgileLog, error) {
	if verifEvLogFails || verifEvLog == nil {
		return nil, verifErrSrc
	}
	return verifEvLog, nil
}

func verifAttestation(quote []byte) (*tpmpb.Attestation, error) {
	if len(quote) == 0 {
		return nil, ErrQuoteNil
	}
	if verifQuoteErrs[quote[0]] {
		return nil, verifErrSrc
	}
	at, ok := verifQuotes[quote[0]]
	if !ok {
		return nil, ErrUnknownFormat
	}
	return at, nil
}

// verifMkAttestation: kind 0 = SEV-SNP attestation with the blob in its certificate table,
// 1 = SEV-SNP attestation without it, 2 = bare certificate table (1-byte placeholder
// measurement) with the blob, 3 = same without blob, 4 = TDX quote.
func verifMkAttestation(kind int, meas, blob []byte) *tpmpb.Attestation {
	switch kind {
	case 0:
		return &tpmpb.Attestation{TeeAttestation: &tpmpb.Attestation_SevSnpAttestation{SevSnpAttestation: &spb.Attestation{Report: &spb.Report{Measurement: meas},
			CertificateChain: &spb.CertificateChain{Extras: map[string][]byte{sev.GCEFwCertGUID: blob}}}}}
	case 1:
		return &tpmpb.Attestation{TeeAttestation: &tpmpb.Attestation_SevSnpAttestation{SevSnpAttestation: &spb.Attestation{Report: &spb.Report{Measurement: meas}}}}
	case 2:
		return &tpmpb.Attestation{TeeAttestation: &tpmpb.Attestation_SevSnpAttestation{SevSnpAttestation: &spb.Attestation{Report: &spb.Report{Measurement: []byte{0}},
			CertificateChain: &spb.CertificateChain{Extras: map[string][]byte{sev.GCEFwCertGUID: blob}}}}}
	case 3:
		return &tpmpb.Attestation{TeeAttestation: &tpmpb.Attestation_SevSnpAttestation{SevSnpAttestation: &spb.Attestation{Report: &spb.Report{Measurement: []byte{0}}, CertificateChain: &spb.CertificateChain{}}}}
	}
	return &tpmpb.Attestation{TeeAttestation: &tpmpb.Attestation_TdxAttestation{TdxAttestation: &tpb.QuoteV4{TdQuoteBody: &tpb.TDQuoteBody{MrTd: meas}}}}
}

func verifC16Extract(logKind int) {
	force := verifNondetBool("force_fetch")
	meas := verifNondetBytes("measurement", 48)
	// the provider's own quote reports an independent measurement: evidence taken from it belongs to
	// another launch than the one the supplied quote names
	measP := verifNondetBytes("provider_measurement", 48)
	blobQ := []byte{0xB1, 0x0B} // endorsement carried by the supplied quote
	blobP := []byte{0xB2, 0x0B} // endorsement carried by the provider's quote
	blobL := []byte{0xB3, 0x0B} // endorsement in the event log (raw locator / UEFI variable)
	getter := &verifGetter{blob: []byte{0xB4}, fail: verifNondetBool("get_fails")}
	reader := &verifVarReader{blob: blobL, fail: verifNondetBool("variable_fails")}
	prov := &verifProvider{quote: []byte{2}, fail: verifNondetBool("provider_fails")}
	opts := &Options{FirmwareManufacturer: GCEFirmwareManufacturer, UEFIVariableReader: reader, ForceFetch: force}
	if verifNondetBool("has_getter") {
		opts.Getter = getter
	}
	if verifNondetBool("has_provider") {
		opts.Provider = prov
	}
	// event log
	verifEvLog, verifEvLogFails = nil, false
	locatorKinds := []uint32{eventlog.RIMLocationRaw, eventlog.RIMLocationVariable, eventlog.RIMLocationURI, eventlog.RIMLocationVariable}
	if logKind >= 0 {
		opts.EventLogLocation = "/log"
		verifEvLogFails = verifNondetBool("log_unreadable")
		evt := &eventlog.SP800155Event3{FirmwareManufacturerStr: eventlog.ByteSizedCStr{Data: GCEFirmwareManufacturer}, RIMLocatorType: locatorKinds[logKind]}
		switch logKind {
		case 0:
			evt.RIMLocator = eventlog.Uint32SizedArray{Data: blobL}
		case 1, 3:
			evt.RIMLocator = eventlog.Uint32SizedArray{Data: append(make([]byte, 16), 'F', 0, 'R', 0, 0, 0)}
		default:
			evt.RIMLocator = eventlog.Uint32SizedArray{Data: []byte(verify.GCETcbURL(extractsev.GCETcbObjectName(sev.GCEUefiFamilyID, meas)))}
		}
		verifEvLog = &eventlog.CryptoAgileLog{Events: []*eventlog.TCGPCREvent2{{EventType: eventlog.EvNoAction, EventData: eventlog.TCGEventData{Event: evt}}}}
		if logKind == 3 {
			// the signer's own pair: a UEFI-variable locator and a URI locator (whose URL is derived from
			// the firmware digest, not from a launch measurement), the variable first
			uri := &eventlog.SP800155Event3{FirmwareManufacturerStr: eventlog.ByteSizedCStr{Data: GCEFirmwareManufacturer}, RIMLocatorType: eventlog.RIMLocationURI,
				RIMLocator: eventlog.Uint32SizedArray{Data: []byte("https://storage.googleapis.com/gce_tcb_integrity/ovmf_x64_csm/digest.fd.signed")}}
			verifEvLog.Events = append(verifEvLog.Events, &eventlog.TCGPCREvent2{EventType: eventlog.EvNoAction, EventData: eventlog.TCGEventData{Event: uri}})
		}
	}
	// supplied quote and provider quote
	qk := verifConcretize(int(verifNondetU8("quote_kind")%7), 0, 6)
	pk := verifConcretize(int(verifNondetU8("provider_quote_kind")%5), 0, 4)
	verifQuotes = map[byte]*tpmpb.Attestation{}
	verifQuoteErrs = map[byte]bool{}
	switch {
	case qk <= 4:
		opts.Quote = []byte{1}
		verifQuotes[1] = verifMkAttestation(qk, meas, blobQ)
	case qk == 5:
		opts.Quote = []byte{1}
		verifQuoteErrs[1] = true // unreadable quote
	default:
		opts.Quote = nil
	}
	verifQuotes[2] = verifMkAttestation(pk, measP, blobP)

	out, err := Endorsement(opts)
	verifObserve("ok", err == nil)

	sevName := verify.GCETcbURL(extractsev.GCETcbObjectName(sev.GCEUefiFamilyID, meas))
	tdxName := verify.GCETcbURL(extracttdx.GCETcbObjectName(meas))
	sevNameP := verify.GCETcbURL(extractsev.GCETcbObjectName(sev.GCEUefiFamilyID, measP))
	tdxNameP := verify.GCETcbURL(extracttdx.GCETcbObjectName(measP))
	// the supplied quote names the launch when it parses and carries a full-length measurement
	quoteNames := qk == 0 || qk == 1 || qk == 4
	for _, u := range getter.urls {
		verifAssert(u == sevName || u == tdxName || u == sevNameP || u == tdxNameP, "a network fetch is only issued for a URL derived from a full-length measurement")
		if quoteNames {
			verifReach("named-fetch")
			verifAssert(u == sevName || u == tdxName, "the URL fetched is derived from the measurement of the supplied attestation, not from another quote's")
		}
	}
	if quoteNames && err == nil {
		verifAssert(!verifEqBytes(out, blobP), "evidence of another launch (the provider's quote) is not returned for a supplied attestation that names its measurement")
	}
	if !force {
		logHit := logKind >= 0 && !verifEvLogFails && (logKind == 0 || ((logKind == 1 || logKind == 3) && !reader.fail) || (logKind == 2 && opts.Getter != nil && !getter.fail))
		if logHit && logKind != 2 {
			verifReach("from-log")
			verifAssert(err == nil && verifEqBytes(out, blobL) && len(getter.urls) == 0, "local event-log evidence is returned byte for byte without network access")
		}
		if !logHit && (logKind != 2 || verifEvLogFails) && (qk == 0 || qk == 2) {
			verifReach("from-quote")
			verifAssert(err == nil && verifEqBytes(out, blobQ) && len(getter.urls) == 0, "the supplied quote's certificate-table entry is returned byte for byte without network access")
		}
	} else {
		verifReach("forced")
		if err == nil {
			verifAssert(len(getter.urls) >= 1 && verifEqBytes(out, getter.blob), "a forced fetch returns what the network returned")
		}
	}
	verifReach("end")
}

func VerifC16ExtractNoLog()  { verifC16Extract(-1) }
func VerifC16ExtractRaw()    { verifC16Extract(0) }
func VerifC16ExtractVar()    { verifC16Extract(1) }
func VerifC16ExtractURI()    { verifC16Extract(2) }
func VerifC16ExtractVarURI() { verifC16Extract(3) }
