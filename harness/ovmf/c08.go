package ovmf

import "github.com/google/gce-tcb-verifier/ovmf/abi"

// C08: firmware analysis is total and resource-bounded on arbitrary images. Every byte of the
// image is symbolic (SMT array of concrete length n). Only assumption: the GUID table footer's
// size field is at most maxTable, which bounds the table walk (unwinding bound checked).

func verifFw(n, maxTable int) []byte {
	fw := verifNondetArr("fw", n)
	if n >= 50 {
		sz := uint16(fw[n-50]) | uint16(fw[n-49])<<8
		verifAssume(int(sz) <= maxTable, "GUID table size field bounded (bounds the table walk)")
	}
	return fw
}

func verifC08Sev(n, maxTable int) {
	verifUnwindCut(4)
	verifTripBound(n/16 + 16)
	verifAllocBudget(uint64(64*n + 1<<20))
	fw := verifFw(n, maxTable)
	d := &SevData{SevEs: true, SevSnp: true}
	err := d.ExtractFromFirmware(fw)
	verifObserve("ok", err == nil)
	if err == nil {
		verifReach("accepted")
		_, verr := d.SnpMetadataSections()
		if verr == nil {
			verifReach("validated")
		}
	}
	verifReach("end")
}

func VerifC08Sev0()    { verifC08Sev(0, 90) }
func VerifC08Sev31()   { verifC08Sev(31, 90) }
func VerifC08Sev49()   { verifC08Sev(49, 90) }
func VerifC08Sev50()   { verifC08Sev(50, 90) }
func VerifC08Sev68()   { verifC08Sev(68, 90) }
func VerifC08Sev4096() { verifC08Sev(4096, 90) }
func VerifC08Sev8192() { verifC08Sev(8192, 126) }

func verifC08Tdx(n, maxTable int, mode int) {
	verifUnwindCut(4)
	verifTripBound(n/16 + 16)
	verifAllocBudget(uint64(64*n + 1<<20))
	fw := verifFw(n, maxTable)
	var err error
	switch mode {
	case 0:
		_, err = ExtractMaterialGuestPhysicalRegions(fw)
	case 1:
		_, err = ExtractMaterialGuestPhysicalRegionsNoUnacceptedMemory(fw, []GuestPhysicalRegion{{Start: 0, Length: 3 * gib}})
	default:
		_, err = ExtractMaterialGuestPhysicalRegionsTDHOBBug(fw, []GuestPhysicalRegion{{Start: 0, Length: 3 * gib}})
	}
	verifObserve("ok", err == nil)
	if err == nil {
		verifReach("accepted")
	}
	verifReach("end")
}

func VerifC08Tdx0()     { verifC08Tdx(0, 90, 0) }
func VerifC08Tdx49()    { verifC08Tdx(49, 90, 0) }
func VerifC08Tdx68()    { verifC08Tdx(68, 90, 0) }
func VerifC08Tdx4096()  { verifC08Tdx(4096, 90, 0) }
func VerifC08Tdx4096A() { verifC08Tdx(4096, 90, 1) }

// TDX metadata parsing on fully symbolic images (everything up to and including validation).
func verifC08TdxMeta(n, maxTable int) {
	verifUnwindCut(4)
	verifTripBound(n/16 + 16)
	verifAllocBudget(uint64(64*n + 1<<20))
	fw := verifFw(n, maxTable)
	md, err := extractTDXMetadata(fw)
	verifObserve("ok", err == nil)
	if err == nil {
		verifReach("accepted")
		verifAssert(md != nil && md.Header != nil, "accepted metadata has a header")
	}
	verifReach("end")
}

func VerifC08TdxMeta0()    { verifC08TdxMeta(0, 90) }
func VerifC08TdxMeta49()   { verifC08TdxMeta(49, 90) }
func VerifC08TdxMeta68()   { verifC08TdxMeta(68, 90) }
func VerifC08TdxMeta4096() { verifC08TdxMeta(4096, 90) }

// Region extraction on fixed-shape TDVF images with symbolic section fields. bounded=true
// assumes the hand-off and temporary-memory sections are at most two pages (the stated bound of
// the passing obligation); bounded=false leaves them arbitrary and exhibits the recorded finding.
func verifC08TdxParse(mode int, bounded bool, maxSections uint64) {
	const n = 4096
	verifUnwindCut(4)
	verifTripBound(n/16 + 16)
	verifAllocBudget(uint64(64*n + 1<<20))
	fw := verifTdxImage(n)
	verifAssume(verifTdxSectionField(fw, 0, -4, 4) <= maxSections, "TDVF section count within the stated bound")
	if bounded {
		for i := 0; i < 3; i++ {
			typ := verifTdxSectionField(fw, i, 24, 4)
			size := verifTdxSectionField(fw, i, 16, 8)
			verifAssume((typ != abi.TDXMetadataSectionTypeTDHOB && typ != abi.TDXMetadataSectionTypeTempMem) || size == 0 || size == abi.PageSize || size == 2*abi.PageSize,
				"hand-off and temporary-memory sections are zero, one or two pages")
		}
	}
	var err error
	banks := []GuestPhysicalRegion{{Start: 0, Length: 3 * gib}}
	switch mode {
	case 0:
		_, err = ExtractMaterialGuestPhysicalRegions(fw)
	case 1:
		_, err = ExtractMaterialGuestPhysicalRegionsNoUnacceptedMemory(fw, banks)
	default:
		_, err = ExtractMaterialGuestPhysicalRegionsTDHOBBug(fw, banks)
	}
	verifObserve("ok", err == nil)
	if err == nil {
		verifReach("accepted")
	}
	verifReach("end")
}

func VerifC08TdxParse0()  { verifC08TdxParse(0, true, 3) }
func VerifC08TdxParse1()  { verifC08TdxParse(1, true, 2) }
func VerifC08TdxParse2()  { verifC08TdxParse(2, true, 2) }
func VerifC08TdxParse1T() { verifC08TdxParse(1, true, 3) }
func VerifC08TdxParse2T() { verifC08TdxParse(2, true, 3) }
func VerifC08TdxSizes()   { verifC08TdxParse(0, false, 2) }
