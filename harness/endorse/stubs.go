package endorse

// Shared environment doubles for the endorse harnesses (C13, C14, C15): a scripted
// VersionControl/ChangeOps pair over an abstract file store, and an injective abstract
// serialisation standing in for prototext/proto marshalling.

import (
	"context"
	"crypto"
	"errors"
	"time"

	"github.com/google/gce-tcb-verifier/keys"
	styp "github.com/google/gce-tcb-verifier/sign/types"

	rpb "github.com/google/gce-tcb-verifier/proto/releases"
	"google.golang.org/protobuf/proto"
	tpb "google.golang.org/protobuf/types/known/timestamppb"
)

//verif:cut google.golang.org/protobuf/encoding/prototext.Unmarshal verifPrototextUnmarshal
//verif:cut google.golang.org/protobuf/encoding/prototext.Marshal verifPrototextMarshal
//verif:cut google.golang.org/protobuf/proto.Marshal verifProtoMarshal

type verifEntry struct {
	path    string
	digest  []byte
	hasTime bool
	sec     int64
}

var (
	verifManifests    [][]verifEntry  // registry: serialisation id-1 -> entries
	verifMessages     []proto.Message // registry for proto.Marshal
	verifErrIO        = errors.New("verif: injected I/O failure")
	verifErrTransient = errors.New("verif: injected transient failure")
	verifErrNotFound  = errors.New("verif: not found")
)

// verifPrototextMarshal: injective abstract text serialisation of a VMEndorsementMap: one byte
// naming a snapshot of the entry list.
func verifPrototextMarshal(m proto.Message) ([]byte, error) {
	em := m.(*rpb.VMEndorsementMap)
	snap := make([]verifEntry, 0, len(em.Entries))
	for _, e := range em.Entries {
		ve := verifEntry{path: e.Path, digest: append([]byte(nil), e.Digest...)}
		if e.CreateTime != nil {
			ve.hasTime = true
			ve.sec = e.CreateTime.Seconds
		}
		snap = append(snap, ve)
	}
	verifManifests = append(verifManifests, snap)
	return []byte{byte(len(verifManifests))}, nil
}

func verifManifestOf(contents []byte) []verifEntry {
	if len(contents) == 0 {
		return nil
	}
	id := int(contents[len(manifestTextProtoPreamble)])
	return verifManifests[id-1]
}

func verifPrototextUnmarshal(b []byte, m proto.Message) error {
	em := m.(*rpb.VMEndorsementMap)
	for _, e := range verifManifestOf(b) {
		ne := &rpb.VMEndorsementMap_Entry{Path: e.path, Digest: append([]byte(nil), e.digest...)}
		if e.hasTime {
			ne.CreateTime = &tpb.Timestamp{Seconds: e.sec}
		}
		em.Entries = append(em.Entries, ne)
	}
	return nil
}

func verifSerializeManifest(entries []verifEntry) []byte {
	verifManifests = append(verifManifests, entries)
	return append(append([]byte(manifestTextProtoPreamble), byte(len(verifManifests))), '\n')
}

var verifSnapshots []proto.Message // deep copies taken at marshal time

func verifProtoMarshal(m proto.Message) ([]byte, error) {
	verifMessages = append(verifMessages, m)
	verifSnapshots = append(verifSnapshots, verifDeepCopy(m).(proto.Message))
	return []byte{0xEE, byte(len(verifMessages))}, nil
}

func verifMessageOf(b []byte) proto.Message {
	if len(b) != 2 || b[0] != 0xEE {
		return nil
	}
	return verifMessages[int(b[1])-1]
}

type verifFile struct {
	path     string
	contents []byte
	binary   bool
}

type verifStore struct{ files []verifFile }

func (s *verifStore) find(p string) int {
	for i := range s.files {
		if s.files[i].path == p {
			return i
		}
	}
	return -1
}

func (s *verifStore) put(p string, c []byte) {
	if i := s.find(p); i >= 0 {
		s.files[i].contents = c
		return
	}
	s.files = append(s.files, verifFile{path: p, contents: c})
}

func (s *verifStore) clone() *verifStore {
	return &verifStore{files: append([]verifFile(nil), s.files...)}
}

// verifVCS is a scripted version-control double: every operation may fail when faults is set;
// a concurrent writer may commit an extra manifest entry before any attempt takes its snapshot.
type verifVCS struct {
	head       *verifStore
	faults     bool
	concurrent bool
	otherDone  bool

	getCalls, attempts, commits, results, retriableAsked int
	workspaces                                           []*verifCops
	lastRetriable, retriedAfterNonRetriable              bool
	lastFaultTransient                                   bool
	resultCommit                                         any
	resultPath                                           string
	otherEntry                                           verifEntry
	maxAttempts                                          int // 0 = unchecked
	calls                                                int // every VCS/ChangeOps call
	effects                                              int // workspace creations, writes, mode changes, commits
}

type verifCops struct {
	vcs       *verifVCS
	id        int
	ws        *verifStore
	sawOther  bool
	destroyed bool
	committed bool
	writes    []string
	reads     []string
}

// fail: an injected fault is either transient (the back end will call it retriable) or permanent;
// the back end's verdict is a function of the error value it is shown, as a real one's is
// (errors.Is against its own transient error), and the double remembers the kind of the most
// recent fault as ground truth for "a new attempt only after a retriable error".
func (v *verifVCS) fail(what string) error {
	if !v.faults || !verifNondetBool("fail_"+what) {
		return nil
	}
	v.lastFaultTransient = verifNondetBool("fault_is_transient")
	if v.lastFaultTransient {
		return verifErrTransient
	}
	return verifErrIO
}

func (v *verifVCS) GetChangeOps(ctx context.Context) (ChangeOps, error) {
	v.calls++
	v.effects++
	v.getCalls++
	if v.attempts > 0 && !v.lastFaultTransient {
		v.retriedAfterNonRetriable = true
	}
	v.attempts++
	if v.maxAttempts > 0 && v.attempts > v.maxAttempts {
		verifAssert(false, "at most retries+1 attempts")
		verifAssume(false, "stop an unbounded retry loop")
	}
	if v.concurrent && !v.otherDone && verifNondetBool("concurrent_commit") {
		v.otherDone = true
		mp := releaseManifestPath
		var cur []verifEntry
		if i := v.head.find(mp); i >= 0 {
			cur = verifManifestOf(v.head.files[i].contents)
		}
		next := append(append([]verifEntry(nil), cur...), v.otherEntry)
		v.head.put(mp, verifSerializeManifest(next))
	}
	if err := v.fail("getchangeops"); err != nil {
		return nil, err
	}
	c := &verifCops{vcs: v, id: v.attempts, ws: v.head.clone(), sawOther: v.otherDone}
	v.workspaces = append(v.workspaces, c)
	return c, nil
}

func (v *verifVCS) RetriableError(err error) bool {
	v.calls++
	v.retriableAsked++
	v.lastRetriable = errors.Is(err, verifErrTransient)
	return v.lastRetriable
}

func (v *verifVCS) Result(commit any, endorsementPath string) {
	v.calls++
	v.results++
	v.resultCommit = commit
	v.resultPath = endorsementPath
}

func (v *verifVCS) ReleasePath(ctx context.Context, certPath string) string { return certPath }

var releaseManifestPath = "out/" + ManifestFile

func (c *verifCops) WriteOrCreateFiles(ctx context.Context, files ...*File) error {
	c.vcs.calls++
	c.vcs.effects++
	if err := c.vcs.fail("write"); err != nil {
		return err
	}
	for _, f := range files {
		c.ws.put(f.Path, f.Contents)
		c.writes = append(c.writes, f.Path)
	}
	return nil
}

func (c *verifCops) ReadFile(ctx context.Context, path string) ([]byte, error) {
	c.vcs.calls++
	c.reads = append(c.reads, path)
	if err := c.vcs.fail("read"); err != nil {
		return nil, err
	}
	i := c.ws.find(path)
	if i < 0 {
		return nil, verifErrNotFound
	}
	return c.ws.files[i].contents, nil
}

func (c *verifCops) SetBinaryWritable(ctx context.Context, path string) error {
	c.vcs.calls++
	c.vcs.effects++
	if err := c.vcs.fail("setbinary"); err != nil {
		return err
	}
	if i := c.ws.find(path); i >= 0 {
		c.ws.files[i].binary = true
	}
	return nil
}

func (c *verifCops) IsNotFound(err error) bool { return err == verifErrNotFound }

func (c *verifCops) Destroy() {
	c.vcs.calls++
	c.destroyed = true
}

func (c *verifCops) TryCommit(ctx context.Context) (any, error) {
	c.vcs.calls++
	c.vcs.effects++
	if err := c.vcs.fail("commit"); err != nil {
		return nil, err
	}
	c.vcs.commits++
	c.committed = true
	c.vcs.head = c.ws
	return c.id, nil
}

// ---- recording CA and signer doubles ----

type verifCA struct{ calls int }

func (c *verifCA) Certificate(ctx context.Context, k string) ([]byte, error) {
	c.calls++
	return []byte{0xC1}, nil
}
func (c *verifCA) CABundle(ctx context.Context, k string) ([]byte, error) {
	c.calls++
	return []byte{0xCB}, nil
}
func (c *verifCA) PrimaryRootKeyVersion(ctx context.Context) (string, error) {
	c.calls++
	return "root", nil
}
func (c *verifCA) PrimarySigningKeyVersion(ctx context.Context) (string, error) {
	c.calls++
	return "psk", nil
}
func (c *verifCA) NewMutation() styp.CertificateAuthorityMutation {
	c.calls++
	return nil
}
func (c *verifCA) Finalize(ctx context.Context, m styp.CertificateAuthorityMutation) error {
	c.calls++
	return nil
}
func (c *verifCA) PrepareResources(ctx context.Context) error { c.calls++; return nil }
func (c *verifCA) Wipeout(ctx context.Context) error          { c.calls++; return nil }

type verifSigner struct{ calls int }

func (s *verifSigner) PublicKey(ctx context.Context, k string) ([]byte, error) {
	s.calls++
	return []byte{1}, nil
}
func (s *verifSigner) Sign(ctx context.Context, k string, d styp.Digest, o crypto.SignerOpts) ([]byte, error) {
	s.calls++
	return []byte{0x51}, nil
}

func verifTime() time.Time { return time.Unix(int64(verifNondetU32("ts")), 0) }

func verifKeysCtx(ctx context.Context, ca *verifCA, s *verifSigner) context.Context {
	return keys.NewContext(ctx, &keys.Context{CA: ca, Signer: s})
}
