package main

import (
	"fmt"
	"go/types"

	"golang.org/x/tools/go/ssa"
)

// Value is one of:
//
//	*Term                      bool / integer scalars
//	*StructV, *ArrayV          immutable aggregate nodes (copy-on-write along the modified path)
//	*SymArrV                   byte array held as an SMT array (heap objects only)
//	PtrV, SliceV               references into heap objects
//	StrV, SymStr               strings: concrete, or concrete length with symbolic bytes
//	IfaceV, FuncV, TupleV, MapV, *MapObj (heap), ChanV
//	UnknownV                   value the engine could not compute; any use makes the path inconclusive
type Value interface{}

type StructV struct{ F []Value }
type ArrayV struct{ E []Value }
type PathElem struct {
	Idx int
	Sym *Term // if non-nil, symbolic index (bv64)
}
type PtrV struct {
	Obj  int // 0 = nil
	Path []PathElem
}
type SliceV struct {
	Obj           int // 0 = nil slice
	Path          []PathElem
	Off, Len, Cap *Term // bv64
}
type SymArrV struct {
	Arr *Term
	Len *Term
}
type StrV struct{ S string }
type SymStr struct{ Cells []*Term }
type UnknownV struct{ Why string }

func cint(t *Term) (int, bool) {
	if t != nil && t.IsConst() {
		return int(signed(t.Const, t.Sort.Width).Int64()), true
	}
	return 0, false
}
func I64(v int) *Term  { return BVInt(int64(v), 64) }
func nilSlice() SliceV { return SliceV{Off: I64(0), Len: I64(0), Cap: I64(0)} }

type IfaceV struct {
	T types.Type // nil => nil interface
	V Value
}
type FuncV struct {
	Fn     *ssa.Function
	Bind   []Value
	Native string // engine-native function value (bound method of a native model)
	Recv   Value
}
type TupleV []Value
type MapV struct{ Obj int }
type MapObj struct {
	Keys []Value
	Vals []Value
}
type ChanV struct{ Obj int }

func intWidth(t types.Type) (int, bool, bool) { // width, signed, ok
	b, ok := t.Underlying().(*types.Basic)
	if !ok {
		return 0, false, false
	}
	switch b.Kind() {
	case types.Int8:
		return 8, true, true
	case types.Int16:
		return 16, true, true
	case types.Int32, types.UntypedRune:
		return 32, true, true
	case types.Int64, types.Int, types.UntypedInt:
		return 64, true, true
	case types.Uint8:
		return 8, false, true
	case types.Uint16:
		return 16, false, true
	case types.Uint32:
		return 32, false, true
	case types.Uint64, types.Uint, types.Uintptr:
		return 64, false, true
	}
	return 0, false, false
}

func isByte(t types.Type) bool {
	w, _, ok := intWidth(t)
	return ok && w == 8
}

var zeroCache = map[types.Type]Value{}

func zeroValue(t types.Type) Value {
	if v, ok := zeroCache[t]; ok {
		return v
	}
	v := zeroValue1(t)
	zeroCache[t] = v
	return v
}

func zeroValue1(t types.Type) Value {
	switch u := t.Underlying().(type) {
	case *types.Basic:
		if w, _, ok := intWidth(u); ok {
			return BVInt(0, w)
		}
		switch u.Kind() {
		case types.Bool, types.UntypedBool:
			return False
		case types.String, types.UntypedString:
			return StrV{""}
		case types.UnsafePointer, types.UntypedNil:
			return PtrV{}
		case types.Float32, types.Float64, types.UntypedFloat, types.Complex64, types.Complex128:
			return UnknownV{"float"}
		}
		panic(fmt.Sprintf("zeroValue basic %v", u))
	case *types.Struct:
		f := make([]Value, u.NumFields())
		for i := range f {
			f[i] = zeroValue(u.Field(i).Type())
		}
		return &StructV{f}
	case *types.Array:
		e := make([]Value, u.Len())
		z := zeroValue(u.Elem())
		for i := range e {
			e[i] = z
		}
		return &ArrayV{e}
	case *types.Pointer:
		return PtrV{}
	case *types.Slice:
		return nilSlice()
	case *types.Interface:
		return IfaceV{}
	case *types.Map:
		return MapV{}
	case *types.Signature:
		return FuncV{}
	case *types.Chan:
		return ChanV{}
	case *types.Tuple:
		tv := make(TupleV, u.Len())
		for i := range tv {
			tv[i] = zeroValue(u.At(i).Type())
		}
		return tv
	case *types.TypeParam:
		return UnknownV{"typeparam"}
	}
	panic(fmt.Sprintf("zeroValue %T %v", t.Underlying(), t))
}

func pathEq(a, b []PathElem) bool {
	if len(a) != len(b) {
		return false
	}
	for i := range a {
		if a[i].Idx != b[i].Idx || a[i].Sym != b[i].Sym {
			return false
		}
	}
	return true
}

// sameValue is cheap identity: true only if the two values are certainly identical.
func sameValue(a, b Value) bool {
	switch x := a.(type) {
	case nil:
		return b == nil
	case *Term:
		y, ok := b.(*Term)
		return ok && x == y
	case *StructV:
		y, ok := b.(*StructV)
		return ok && x == y
	case *ArrayV:
		y, ok := b.(*ArrayV)
		return ok && x == y
	case *SymArrV:
		y, ok := b.(*SymArrV)
		return ok && (x == y || (x.Arr == y.Arr && x.Len == y.Len))
	case *MapObj:
		y, ok := b.(*MapObj)
		return ok && x == y
	case PtrV:
		y, ok := b.(PtrV)
		return ok && x.Obj == y.Obj && pathEq(x.Path, y.Path)
	case SliceV:
		y, ok := b.(SliceV)
		return ok && x.Obj == y.Obj && pathEq(x.Path, y.Path) && x.Off == y.Off && x.Len == y.Len && x.Cap == y.Cap
	case StrV:
		y, ok := b.(StrV)
		return ok && x.S == y.S
	case SymStr:
		y, ok := b.(SymStr)
		if !ok || len(x.Cells) != len(y.Cells) {
			return false
		}
		for i := range x.Cells {
			if x.Cells[i] != y.Cells[i] {
				return false
			}
		}
		return true
	case IfaceV:
		y, ok := b.(IfaceV)
		if !ok {
			return false
		}
		if x.T == nil || y.T == nil {
			return x.T == nil && y.T == nil
		}
		return types.Identical(x.T, y.T) && sameValue(x.V, y.V)
	case FuncV:
		y, ok := b.(FuncV)
		if !ok || x.Fn != y.Fn || x.Native != y.Native || len(x.Bind) != len(y.Bind) {
			return false
		}
		for i := range x.Bind {
			if !sameValue(x.Bind[i], y.Bind[i]) {
				return false
			}
		}
		return sameValue(x.Recv, y.Recv)
	case TupleV:
		y, ok := b.(TupleV)
		if !ok || len(x) != len(y) {
			return false
		}
		for i := range x {
			if !sameValue(x[i], y[i]) {
				return false
			}
		}
		return true
	case MapV:
		y, ok := b.(MapV)
		return ok && x.Obj == y.Obj
	case ChanV:
		y, ok := b.(ChanV)
		return ok && x.Obj == y.Obj
	case *iterV:
		y, ok := b.(*iterV)
		return ok && x == y
	case UnknownV:
		return false
	}
	return false
}

// mergeValue builds ite(c, a, b) when the shapes allow it.
func mergeValue(c *Term, a, b Value) (Value, bool) {
	if sameValue(a, b) {
		return a, true
	}
	switch x := a.(type) {
	case *Term:
		y, ok := b.(*Term)
		if !ok || x.Sort != y.Sort {
			return nil, false
		}
		return Ite(c, x, y), true
	case *StructV:
		y, ok := b.(*StructV)
		if !ok || len(x.F) != len(y.F) {
			return nil, false
		}
		f := make([]Value, len(x.F))
		for i := range f {
			v, ok := mergeValue(c, x.F[i], y.F[i])
			if !ok {
				return nil, false
			}
			f[i] = v
		}
		return &StructV{f}, true
	case *ArrayV:
		y, ok := b.(*ArrayV)
		if !ok || len(x.E) != len(y.E) {
			return nil, false
		}
		e := make([]Value, len(x.E))
		for i := range e {
			v, ok := mergeValue(c, x.E[i], y.E[i])
			if !ok {
				return nil, false
			}
			e[i] = v
		}
		return &ArrayV{e}, true
	case *SymArrV:
		y, ok := b.(*SymArrV)
		if !ok {
			return nil, false
		}
		return &SymArrV{Arr: Ite(c, x.Arr, y.Arr), Len: Ite(c, x.Len, y.Len)}, true
	case SliceV:
		y, ok := b.(SliceV)
		if !ok || x.Obj != y.Obj || !pathEq(x.Path, y.Path) {
			return nil, false
		}
		return SliceV{Obj: x.Obj, Path: x.Path, Off: Ite(c, x.Off, y.Off), Len: Ite(c, x.Len, y.Len), Cap: Ite(c, x.Cap, y.Cap)}, true
	case IfaceV:
		y, ok := b.(IfaceV)
		if !ok || x.T == nil || y.T == nil || !types.Identical(x.T, y.T) {
			return nil, false
		}
		v, ok := mergeValue(c, x.V, y.V)
		if !ok {
			return nil, false
		}
		return IfaceV{T: x.T, V: v}, true
	case TupleV:
		y, ok := b.(TupleV)
		if !ok || len(x) != len(y) {
			return nil, false
		}
		t := make(TupleV, len(x))
		for i := range t {
			v, ok := mergeValue(c, x[i], y[i])
			if !ok {
				return nil, false
			}
			t[i] = v
		}
		return t, true
	case StrV, SymStr:
		ca, ok1 := strCells(a)
		cb, ok2 := strCells(b)
		if !ok1 || !ok2 || len(ca) != len(cb) {
			return nil, false
		}
		cells := make([]*Term, len(ca))
		for i := range cells {
			cells[i] = Ite(c, ca[i], cb[i])
		}
		return SymStr{cells}, true
	}
	return nil, false
}

func strCells(v Value) ([]*Term, bool) {
	switch x := v.(type) {
	case StrV:
		c := make([]*Term, len(x.S))
		for i := range c {
			c[i] = BVInt(int64(x.S[i]), 8)
		}
		return c, true
	case SymStr:
		return x.Cells, true
	}
	return nil, false
}

// mkStr returns StrV if all cells are constant, else SymStr.
func mkStr(cells []*Term) Value {
	bs := make([]byte, len(cells))
	for i, c := range cells {
		if !c.IsConst() {
			return SymStr{cells}
		}
		bs[i] = byte(c.Const.Int64())
	}
	return StrV{string(bs)}
}

type unsupported struct{ msg string }

func unsupp(format string, a ...interface{}) {
	panic(unsupported{fmt.Sprintf(format, a...)})
}

// getPath navigates v by path.
func getPath(v Value, path []PathElem) Value {
	for _, p := range path {
		switch x := v.(type) {
		case *StructV:
			v = x.F[p.Idx]
		case *ArrayV:
			if p.Sym != nil {
				if len(x.E) == 0 {
					unsupp("symbolic index into empty array")
				}
				var r Value = x.E[len(x.E)-1]
				for i := len(x.E) - 2; i >= 0; i-- {
					m, ok := mergeValue(Eq(p.Sym, BVInt(int64(i), 64)), x.E[i], r)
					if !ok {
						unsupp("symbolic index over non-mergeable elements")
					}
					r = m
				}
				v = r
			} else {
				if p.Idx < 0 || p.Idx >= len(x.E) {
					unsupp("getPath: index %d out of %d (stale pointer past reslice?)", p.Idx, len(x.E))
				}
				v = x.E[p.Idx]
			}
		case *SymArrV:
			if p.Sym != nil {
				v = Select(x.Arr, p.Sym)
			} else {
				v = Select(x.Arr, I64(p.Idx))
			}
		case UnknownV:
			return x
		default:
			unsupp("getPath through %T", v)
		}
	}
	return v
}

// setPath returns a copy of root with the element at path replaced.
func setPath(root Value, path []PathElem, nv Value) Value {
	if len(path) == 0 {
		return nv
	}
	p := path[0]
	switch x := root.(type) {
	case *StructV:
		f := append([]Value(nil), x.F...)
		f[p.Idx] = setPath(x.F[p.Idx], path[1:], nv)
		return &StructV{f}
	case *ArrayV:
		e := append([]Value(nil), x.E...)
		if p.Sym != nil {
			for i := range e {
				upd := setPath(x.E[i], path[1:], nv)
				m, ok := mergeValue(Eq(p.Sym, BVInt(int64(i), 64)), upd, x.E[i])
				if !ok {
					unsupp("symbolic-index store over non-mergeable elements")
				}
				e[i] = m
			}
		} else {
			if p.Idx < 0 || p.Idx >= len(e) {
				unsupp("setPath: index %d out of %d", p.Idx, len(e))
			}
			e[p.Idx] = setPath(x.E[p.Idx], path[1:], nv)
		}
		return &ArrayV{e}
	case *SymArrV:
		idx := p.Sym
		if idx == nil {
			idx = I64(p.Idx)
		}
		t, ok := nv.(*Term)
		if !ok {
			unsupp("store of %T into byte array", nv)
		}
		return &SymArrV{Arr: Store(x.Arr, idx, t), Len: x.Len}
	}
	unsupp("setPath through %T", root)
	return nil
}

func extendPath(p []PathElem, el PathElem) []PathElem {
	n := make([]PathElem, len(p)+1)
	copy(n, p)
	n[len(p)] = el
	return n
}

func elemAt(base *Term, i int) PathElem {
	t := BVBin("bvadd", base, I64(i))
	if c, ok := cint(t); ok {
		return PathElem{Idx: c}
	}
	return PathElem{Sym: t}
}
