package endorse

import (
	"bytes"
	"context"
	"crypto/sha512"
	"errors"

	epb "github.com/google/gce-tcb-verifier/proto/endorsement"
	"github.com/google/gce-tcb-verifier/sev"
	"github.com/google/gce-tcb-verifier/tdx"
	sgpb "github.com/google/go-sev-guest/proto/sevsnp"
	"github.com/google/uuid"
)

// C06: the signed document describes exactly the supplied image. The real GoldenMeasurement,
// sev.UnsignedSnp (canonicalizeRequest, vmsaCounts, generateAllPossibleLDs, generateVMSevSnp) and
// tdx.UnsignedTDX (generateAllPossibleMRTDs) run; the two measurement functions themselves are
// uninterpreted functions of (image, configuration) that may also fail (their correctness is
// C04/C05). Assumption baked into the TDX stub and listed in evidence: for one image and one bank
// list, early-accept mode fails exactly when the default mode fails (both modes take the same
// error paths in ovmf.parse; only hand-off attributes differ).

//verif:cut github.com/google/gce-tcb-verifier/sev.LaunchDigest verifLaunchDigest
//verif:cut github.com/google/gce-tcb-verifier/tdx.MRTD verifMRTD
//verif:cut github.com/google/uuid.NewRandom verifNewRandomUUID

var (
	verifErrMeasure = errors.New("verif: measurement failed")
	verifRandomID   uuid.UUID
)

func verifLDValue(image []byte, vcpus int, product sgpb.SevProduct_SevProductName) []byte {
	return []byte{byte(verifUF64("ld0", uint64(image[0]), uint64(vcpus), uint64(product))), byte(verifUF64("ld1", uint64(image[0]), uint64(vcpus), uint64(product)))}
}

func verifLDFails(image []byte, vcpus int, product sgpb.SevProduct_SevProductName) bool {
	return verifUFBool("ld_fails", uint64(image[0]), uint64(vcpus), uint64(product))
}

func verifLaunchDigest(options *sev.LaunchOptions, uefi []byte) ([]byte, error) {
	if verifLDFails(uefi, options.Vcpus, options.Product) {
		return nil, verifErrMeasure
	}
	return verifLDValue(uefi, options.Vcpus, options.Product), nil
}

func verifBankKey(opts *tdx.LaunchOptions) uint64 {
	k := uint64(len(opts.GuestRAMBanks)) << 56
	for _, b := range opts.GuestRAMBanks {
		k += b.Length
	}
	return k
}

func verifMRValue(image []byte, opts *tdx.LaunchOptions) [48]byte {
	var out [48]byte
	mode := uint64(0)
	if opts.DisableUnacceptedMemory {
		mode |= 1
	}
	if opts.MeasureAllRegions {
		mode |= 2
	}
	out[0] = byte(verifUF64("mr0", uint64(image[0]), verifBankKey(opts), mode))
	out[1] = byte(verifUF64("mr1", uint64(image[0]), verifBankKey(opts), mode))
	out[47] = 0x77 // a real measurement is never the all-zero placeholder
	return out
}

func verifMRTD(opts *tdx.LaunchOptions, fw []byte) ([48]byte, error) {
	if verifUFBool("mr_fails", uint64(fw[0]), verifBankKey(opts)) {
		return [48]byte{}, verifErrMeasure
	}
	return verifMRValue(fw, opts), nil
}

func verifNewRandomUUID() (uuid.UUID, error) {
	copy(verifRandomID[:], verifNondetBytes("random_image_id", 16))
	return verifRandomID, nil
}

var verifAllCounts = []uint32{1, 2, 4, 8, 16, 24, 32, 48, 64, 80, 96, 112, 128, 224, 240}

func verifC06Sev(explicit bool) {
	image := verifNondetBytes("image", 2)
	req := &sev.SnpEndorsementRequest{Svn: verifNondetU32("svn"), Product: sgpb.SevProduct_SevProductName(verifNondetU8("product") % 3)}
	if explicit {
		req.LaunchVmsas = verifNondetU32("launch_vmsas")
		verifAssume(req.LaunchVmsas != 0, "an explicit VMSA count is requested")
	}
	const family = "11111111-2222-3333-4444-555555555555"
	const imageID = "aaaaaaaa-bbbb-cccc-dddd-eeeeeeeeeeee"
	givenFamily, givenImage := verifNondetBool("family_given"), verifNondetBool("image_id_given")
	if givenFamily {
		req.FamilyID = family
	}
	if givenImage {
		req.ImageID = imageID
	}
	ec := &Context{SevSnp: req, Image: image, ClSpec: verifNondetU64("clspec"), Commit: verifNondetBytes("commit", 2), SvsmSnpMeasurement: verifNondetBytes("svsm", 2)}
	doc, err := GoldenMeasurement(NewContext(context.Background(), ec))
	verifObserve("ok", err == nil)
	counts := verifAllCounts
	if explicit {
		counts = []uint32{req.LaunchVmsas}
	}
	anyFail := false
	for _, c := range counts {
		anyFail = anyFail || verifLDFails(image, int(c), req.Product)
	}
	if err != nil {
		verifReach("failed")
		verifAssert(anyFail, "the golden measurement fails only if one of the requested measurements failed")
		verifReach("end")
		return
	}
	verifReach("built")
	verifAssert(!anyFail, "no document is produced when a requested measurement failed")
	d := sha512.Sum384(image)
	verifAssert(bytes.Equal(doc.Digest, d[:]), "the document carries the SHA-384 of the supplied image bytes")
	verifAssert(doc.ClSpec == ec.ClSpec && bytes.Equal(doc.Commit, ec.Commit), "provenance fields are those of the request")
	snp := doc.SevSnp
	verifAssert(snp != nil && doc.Tdx == nil, "exactly the requested technology sections are present")
	if snp == nil {
		return
	}
	verifAssert(len(snp.Measurements) == len(counts), "one SNP measurement per requested VMSA count and no other")
	for _, c := range counts {
		m, ok := snp.Measurements[c]
		verifAssert(ok && bytes.Equal(m, verifLDValue(image, int(c), req.Product)), "each listed SNP measurement is the launch measurement of the same image for that VMSA count and product")
	}
	verifAssert(snp.Svn == req.Svn && bytes.Equal(snp.SvsmMeasurement, ec.SvsmSnpMeasurement), "SVN and SVSM measurement are those of the request")
	wantFamily := uuid.MustParse(sev.GCEUefiFamilyID)
	if givenFamily {
		wantFamily = uuid.MustParse(family)
	}
	verifAssert(bytes.Equal(snp.FamilyId, wantFamily[:]), "family id is the requested one (default: the GCE family)")
	if givenImage {
		want := uuid.MustParse(imageID)
		verifAssert(bytes.Equal(snp.ImageId, want[:]), "image id is the requested one")
	} else {
		verifAssert(bytes.Equal(snp.ImageId, verifRandomID[:]), "image id defaults to a fresh random id")
	}
	verifReach("end")
}

func VerifC06SevAll()      { verifC06Sev(false) }
func VerifC06SevExplicit() { verifC06Sev(true) }

var verifShapes = []string{"c3-standard-4", "c3-standard-88"}

func verifC06Tdx(nshapes int) {
	image := verifNondetBytes("image", 2)
	req := &tdx.EndorsementRequest{Svn: verifNondetU32("svn"), IncludeEarlyAccept: verifNondetBool("early_accept"), MachineShapes: verifShapes[:nshapes]}
	ec := &Context{Tdx: req, Image: image}
	doc, err := GoldenMeasurement(NewContext(context.Background(), ec))
	verifObserve("ok", err == nil)
	if err != nil {
		verifReach("failed")
		verifReach("end")
		return
	}
	verifReach("built")
	t := doc.Tdx
	verifAssert(t != nil && doc.SevSnp == nil && t.Svn == req.Svn, "exactly the requested technology sections are present, with the requested SVN")
	if t == nil {
		return
	}
	want := nshapes + 1
	if req.IncludeEarlyAccept {
		want += nshapes
	}
	verifAssert(len(t.Measurements) == want, "one TDX row per requested shape (two with early accept) plus the default row")
	zero := make([]byte, 48)
	for _, row := range t.Measurements {
		verifAssert(len(row.Mrtd) == 48 && !bytes.Equal(row.Mrtd, zero), "no signed TDX row is a placeholder")
	}
	i := 0
	sizes := []uint32{16, 352}
	for s := 0; s < nshapes; s++ {
		o := tdx.LaunchOptionsDefaultTDHOBBug(verifShapes[s])
		v := verifMRValue(image, o)
		verifAssert(t.Measurements[i].RamGib == sizes[s] && !t.Measurements[i].EarlyAccept && bytes.Equal(t.Measurements[i].Mrtd, v[:]), "shape row = MRTD of the same image for that shape's banks")
		i++
		if req.IncludeEarlyAccept {
			o.DisableUnacceptedMemory = true
			v2 := verifMRValue(image, o)
			verifAssert(t.Measurements[i].RamGib == sizes[s] && t.Measurements[i].EarlyAccept && bytes.Equal(t.Measurements[i].Mrtd, v2[:]), "early-accept row = MRTD of the same image in early-accept mode")
			i++
		}
	}
	dv := verifMRValue(image, tdx.LaunchOptionsDefault(""))
	verifAssert(t.Measurements[i].RamGib == 0 && bytes.Equal(t.Measurements[i].Mrtd, dv[:]), "default row = MRTD of the same image with default options")
	verifReach("end")
}

func VerifC06Tdx0() { verifC06Tdx(0) }
func VerifC06Tdx1() { verifC06Tdx(1) }
func VerifC06Tdx2() { verifC06Tdx(2) }

// SignDoc: certificate, bundle and timestamp are set before the bytes are taken.
func VerifC06SignDoc() {
	verifMessages = nil
	ca, signer := &verifCA{}, &verifSigner{}
	ec := &Context{Image: []byte{1}, Timestamp: verifTime()}
	ctx := NewContext(context.Background(), ec)
	ctx = verifKeysCtx(ctx, ca, signer)
	doc := &epb.VMGoldenMeasurement{ClSpec: verifNondetU64("clspec"), Digest: verifNondetBytes("digest", 2)}
	e, err := SignDoc(ctx, doc)
	verifAssert(err == nil && e != nil, "signing succeeds over working doubles")
	if err != nil {
		return
	}
	snap, ok := verifSnapshots[0].(*epb.VMGoldenMeasurement)
	verifAssert(ok && bytes.Equal(snap.Cert, []byte{0xC1}) && bytes.Equal(snap.CaBundle, []byte{0xCB}) && snap.Timestamp != nil && snap.Timestamp.Seconds == ec.Timestamp.Unix() &&
		snap.ClSpec == doc.ClSpec && bytes.Equal(snap.Digest, doc.Digest), "certificate, CA bundle and timestamp are part of the bytes that get signed, next to the measured content")
	verifAssert(verifSameSlice(e.SerializedUefiGolden, []byte(nil)) || len(e.SerializedUefiGolden) == 2, "the endorsement stores the marshalled bytes")
	verifReach("end")
}
