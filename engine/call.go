package main

import (
	"fmt"
	"go/types"
	"sort"
	"strings"

	"golang.org/x/tools/go/ssa"
)

func (e *Engine) call(s *State, f *Frame, x *ssa.Call) {
	cc := x.Call
	if cc.IsInvoke() {
		rv := e.get(s, f, cc.Value)
		if u, ok := rv.(UnknownV); ok {
			unsupp("invoke %s on unknown value (%s)", cc.Method.Name(), u.Why)
		}
		recv, ok := rv.(IfaceV)
		if !ok {
			unsupp("invoke on %T", rv)
		}
		if recv.T == nil {
			e.panicNow(s, "invoke of "+cc.Method.Name()+" on nil interface", x)
			return
		}
		args := make([]Value, 0, len(cc.Args)+1)
		args = append(args, recv.V)
		for _, a := range cc.Args {
			args = append(args, e.get(s, f, a))
		}
		if nm, ok := e.nativeMethod(recv.T, cc.Method.Name()); ok {
			e.callNative(s, f, x, nm, args, x)
			return
		}
		fn := e.lookupMethod(recv.T, cc.Method)
		e.invokeFn(s, f, x, fn, args, nil, x)
		return
	}
	args := make([]Value, 0, len(cc.Args))
	for _, a := range cc.Args {
		args = append(args, e.get(s, f, a))
	}
	switch fn := cc.Value.(type) {
	case *ssa.Builtin:
		e.builtin(s, f, x, fn.Name(), args, cc.Args)
	case *ssa.Function:
		e.invokeFn(s, f, x, fn, args, nil, x)
	default:
		v := e.get(s, f, cc.Value)
		fv, ok := v.(FuncV)
		if !ok {
			unsupp("call of %T", v)
		}
		e.invokeValue(s, f, x, fv, args, x)
	}
}

// invokeValue calls a function value. call may be nil (deferred call: result dropped).
func (e *Engine) invokeValue(s *State, f *Frame, call *ssa.Call, fv FuncV, args []Value, in ssa.Instruction) {
	if fv.Native != "" {
		a := args
		if fv.Recv != nil {
			a = append([]Value{fv.Recv}, args...)
		}
		e.callNative(s, f, call, fv.Native, a, in)
		return
	}
	if fv.Fn == nil {
		e.panicNow(s, "call of nil func", in)
		return
	}
	e.invokeFn(s, f, call, fv.Fn, args, fv.Bind, in)
}

func (e *Engine) setResult(s *State, call *ssa.Call, v Value) {
	if call != nil {
		s.top().Locals[call] = v
	}
}

func (e *Engine) invokeFn(s *State, f *Frame, call *ssa.Call, fn *ssa.Function, args []Value, bind []Value, in ssa.Instruction) {
	name := fn.String()
	if fn.Synthetic != "" && strings.HasPrefix(fn.Synthetic, "bound method wrapper") && len(fn.Blocks) > 0 {
		// fine: has a body
	}
	if repl, ok := e.Cuts[name]; ok {
		e.Stubs["cut "+name+" => "+repl.Name()] = true
		fn = repl
		name = fn.String()
		bind = nil
	} else if o := fn.Origin(); o != nil {
		if repl, ok := e.Cuts[o.String()]; ok {
			e.Stubs["cut "+o.String()+" => "+repl.Name()] = true
			fn = repl
			name = fn.String()
			bind = nil
		}
	}
	if e.intrinsic(s, f, call, fn, name, args, in) {
		return
	}
	if len(fn.Blocks) == 0 {
		if e.initing {
			e.setResult(s, call, unknownResult(fn, "bodyless "+name))
			return
		}
		unsupp("call to function without body %s", name)
	}
	nf := e.pushFrame(s, fn, args, bind, nil)
	if call != nil {
		nf.Call = call
	} else {
		nf.Drop = true
	}
}

func unknownResult(fn *ssa.Function, why string) Value {
	res := fn.Signature.Results()
	switch res.Len() {
	case 0:
		return nil
	case 1:
		return UnknownV{why}
	}
	tv := make(TupleV, res.Len())
	for i := range tv {
		tv[i] = UnknownV{why}
	}
	return tv
}

func (e *Engine) builtin(s *State, f *Frame, x *ssa.Call, name string, args []Value, argv []ssa.Value) {
	switch name {
	case "len", "cap":
		switch a := args[0].(type) {
		case SliceV:
			if name == "len" {
				f.Locals[x] = a.Len
			} else {
				f.Locals[x] = a.Cap
			}
		case SymStr:
			f.Locals[x] = I64(len(a.Cells))
		case StrV:
			f.Locals[x] = I64(len(a.S))
		case MapV:
			if a.Obj == 0 {
				f.Locals[x] = I64(0)
			} else {
				mo, _ := e.heapGet(s, a.Obj)
				f.Locals[x] = I64(len(mo.(*MapObj).Keys))
			}
		case *ArrayV:
			f.Locals[x] = I64(len(a.E))
		case PtrV:
			n := argv[0].Type().Underlying().(*types.Pointer).Elem().Underlying().(*types.Array).Len()
			f.Locals[x] = I64(int(n))
		case ChanV:
			f.Locals[x] = I64(0)
		case UnknownV:
			f.Locals[x] = a
		default:
			unsupp("len of %T", a)
		}
	case "append":
		e.appendBuiltin(s, f, x, args, argv)
	case "copy":
		e.copyBuiltin(s, f, x, args)
	case "delete":
		m := args[0].(MapV)
		e.mapDelete(s, m, args[1], x)
	case "recover":
		f.Locals[x] = IfaceV{}
	case "print", "println":
	case "min", "max":
		r := args[0].(*Term)
		_, sg, _ := intWidth(argv[0].Type())
		for _, a := range args[1:] {
			t := a.(*Term)
			var lt *Term
			if sg {
				lt = BVCmp("bvslt", t, r)
			} else {
				lt = BVCmp("bvult", t, r)
			}
			if name == "max" {
				lt = Not(Or(lt, Eq(t, r)))
				r = Ite(lt, r, t)
				// max: pick t if t > r
				continue
			}
			r = Ite(lt, t, r)
		}
		f.Locals[x] = r
	case "clear":
		switch a := args[0].(type) {
		case MapV:
			if a.Obj != 0 {
				s.Heap[a.Obj] = &MapObj{}
			}
		default:
			unsupp("clear of %T", a)
		}
	case "ssa:wrapnilchk":
		p, ok := args[0].(PtrV)
		if ok && p.Obj == 0 {
			e.panicNow(s, "value method called via nil pointer", x)
			return
		}
		f.Locals[x] = args[0]
	default:
		unsupp("builtin %s", name)
	}
}

func (e *Engine) appendBuiltin(s *State, f *Frame, x *ssa.Call, args []Value, argv []ssa.Value) {
	a, ok := args[0].(SliceV)
	if !ok {
		unsupp("append to %T", args[0])
	}
	et := argv[0].Type().Underlying().(*types.Slice).Elem()
	var add []Value
	switch b := args[1].(type) {
	case SliceV:
		if _, conc := cint(b.Len); !conc && b.Obj != 0 {
			e.appendSym(s, f, x, a, b, et)
			return
		}
		add = e.sliceElems(s, b)
	case StrV, SymStr:
		cells, _ := strCells(b)
		for _, c := range cells {
			add = append(add, c)
		}
	default:
		unsupp("append of %T", args[1])
	}
	if len(add) == 0 {
		f.Locals[x] = a
		return
	}
	if _, conc := cint(a.Len); !conc && a.Obj != 0 {
		// symbolic-length destination over an SMT array: store the new cells past the end
		root, _ := e.heapGet(s, a.Obj)
		sa, isArr := getPath(root, a.Path).(*SymArrV)
		if !isArr {
			// cell-array destination: case-split on its (few) feasible lengths
			vals, complete := e.enumValues(s, a.Len, 8)
			if !complete {
				unsupp("append to a cell slice whose symbolic length has more than 8 feasible values")
			}
			if len(vals) == 0 {
				s.Status = "infeasible"
				return
			}
			for i, v := range vals {
				st := s
				if i > 0 {
					st = s.Clone()
				}
				st.PC = append(st.PC, Eq(a.Len, I64(v)))
				a2 := a
				a2.Len = I64(v)
				e.appendBuiltin(st, st.top(), x, []Value{a2, args[1]}, argv)
				if i > 0 {
					e.Pending = append(e.Pending, st)
				}
			}
			s.top()
			return
		}
		arr := sa.Arr
		for i, v := range add {
			arr = Store(arr, BVBin("bvadd", BVBin("bvadd", a.Off, a.Len), I64(i)), v.(*Term))
		}
		nl := BVBin("bvadd", a.Len, I64(len(add)))
		if !e.noteAlloc(s, nl, et, x) {
			return
		}
		id := e.alloc(s, &SymArrV{Arr: arr, Len: BVBin("bvadd", a.Off, nl)})
		f.Locals[x] = SliceV{Obj: id, Off: a.Off, Len: nl, Cap: nl}
		return
	}
	old := e.sliceElems(s, a)
	// in-place when capacity allows and the backing store is a cell array: Go semantics
	if a.Obj != 0 {
		if cp, ok := cint(a.Cap); ok && len(old)+len(add) <= cp {
			if off, ok := cint(a.Off); ok {
				root, _ := e.heapGet(s, a.Obj)
				if av, isCells := getPath(root, a.Path).(*ArrayV); isCells && off+len(old)+len(add) <= len(av.E) {
					for i, v := range add {
						e.store(s, PtrV{Obj: a.Obj, Path: extendPath(a.Path, PathElem{Idx: off + len(old) + i})}, v)
					}
					f.Locals[x] = SliceV{Obj: a.Obj, Path: a.Path, Off: a.Off, Len: I64(len(old) + len(add)), Cap: a.Cap}
					return
				}
			}
		}
	}
	n := len(old) + len(add)
	// amortised growth: capacity doubles (accounted as allocation of the new capacity)
	ncap := n
	if !e.noteAlloc(s, I64(ncap), et, x) {
		return
	}
	ne := make([]Value, 0, ncap)
	ne = append(ne, old...)
	ne = append(ne, add...)
	id := e.alloc(s, &ArrayV{ne})
	f.Locals[x] = SliceV{Obj: id, Off: I64(0), Len: I64(n), Cap: I64(ncap)}
}

// appendSym appends a symbolic-length slice: case-split on its (few) feasible lengths.
func (e *Engine) appendSym(s *State, f *Frame, x *ssa.Call, a, b SliceV, et types.Type) {
	vals, complete := e.enumValues(s, b.Len, 8)
	if !complete {
		unsupp("append of a slice whose symbolic length has more than 8 feasible values")
	}
	if len(vals) == 0 {
		s.Status = "infeasible"
		return
	}
	// re-execute the append in each fork with the length pinned
	for i, v := range vals {
		st := s
		if i > 0 {
			st = s.Clone()
		}
		st.PC = append(st.PC, Eq(b.Len, I64(v)))
		b2 := b
		b2.Len = I64(v)
		fr := st.top()
		args := []Value{a, b2}
		e.appendBuiltin(st, fr, x, args, []ssa.Value{x.Call.Args[0], x.Call.Args[1]})
		if i > 0 {
			e.Pending = append(e.Pending, st)
		}
	}
	s.top()
}

// enumValues lists the values t can take on this path, up to k of them (model-guided).
func (e *Engine) enumValues(s *State, t *Term, k int) ([]int, bool) {
	if c, ok := cint(t); ok {
		return []int{c}, true
	}
	var out []int
	excl := True
	for len(out) <= k {
		pc := s.PC
		m, ok := e.Solver.Model(pc, excl, nil, nil, t)
		if !ok {
			// no (further) model: complete if the exclusion is really unsat
			if e.Solver.Check(pc, excl) == "unsat" {
				sort.Ints(out)
				return out, true
			}
			return out, false
		}
		u, ok := litToUint(m[fmt.Sprintf("eval:%d", t.ID)])
		if !ok {
			return out, false
		}
		c := BVUint(u, t.Sort.Width)
		v, _ := cint(c)
		out = append(out, v)
		excl = And(excl, Not(Eq(t, c)))
	}
	sort.Ints(out)
	return out, false
}

func (e *Engine) copyBuiltin(s *State, f *Frame, x *ssa.Call, args []Value) {
	d, ok := args[0].(SliceV)
	if !ok {
		unsupp("copy into %T", args[0])
	}
	var srcLen *Term
	var srcAt func(i int) Value
	switch b := args[1].(type) {
	case SliceV:
		srcLen = b.Len
		if b.Obj != 0 {
			root, _ := e.heapGet(s, b.Obj)
			base := getPath(root, b.Path)
			srcAt = func(i int) Value { return getPath(base, []PathElem{elemAt(b.Off, i)}) }
		}
	case StrV, SymStr:
		cells, _ := strCells(b)
		srcLen = I64(len(cells))
		srcAt = func(i int) Value { return cells[i] }
	default:
		unsupp("copy from %T", args[1])
	}
	// n = min(len(dst), len(src))
	n := Ite(BVCmp("bvslt", d.Len, srcLen), d.Len, srcLen)
	nc, conc := cint(n)
	if !conc {
		// fork over feasible concrete n (bounded case split)
		vals, complete := e.enumValues(s, n, 64)
		if !complete {
			unsupp("copy with symbolic length having more than 64 feasible values")
		}
		if len(vals) == 0 {
			s.Status = "infeasible"
			return
		}
		for _, v := range vals[1:] {
			o := s.Clone()
			o.PC = append(o.PC, Eq(n, I64(v)))
			e.doCopy(o, d, srcAt, v)
			o.top().Locals[x] = I64(v)
			e.Pending = append(e.Pending, o)
		}
		s.top()
		s.PC = append(s.PC, Eq(n, I64(vals[0])))
		e.doCopy(s, d, srcAt, vals[0])
		s.top().Locals[x] = I64(vals[0])
		return
	}
	e.doCopy(s, d, srcAt, nc)
	f.Locals[x] = I64(nc)
}

func (e *Engine) doCopy(s *State, d SliceV, srcAt func(i int) Value, n int) {
	if n == 0 {
		return
	}
	src := make([]Value, n)
	for i := 0; i < n; i++ {
		src[i] = srcAt(i)
	}
	for i := 0; i < n; i++ {
		e.store(s, PtrV{Obj: d.Obj, Path: extendPath(d.Path, elemAt(d.Off, i))}, src[i])
	}
}

// feasibleValues enumerates the values in [lo,hi] that t can take on this path.
func (e *Engine) feasibleValues(s *State, t *Term, lo, hi int) []int {
	if c, ok := cint(t); ok {
		return []int{c}
	}
	var out []int
	w := t.Sort.Width
	// quick range probe: is anything outside [lo,hi] feasible?
	outside := Or(BVCmp("bvslt", t, BVInt(int64(lo), w)), BVCmp("bvsgt", t, BVInt(int64(hi), w)))
	if e.feasible(s, outside) {
		unsupp("symbolic length not bounded by %d on this path", hi)
	}
	for v := lo; v <= hi; v++ {
		if e.feasible(s, Eq(t, BVInt(int64(v), w))) {
			out = append(out, v)
		}
	}
	return out
}

// ---- maps ----

func (e *Engine) keyEq(a, b Value) *Term {
	switch x := a.(type) {
	case *Term:
		return Eq(x, b.(*Term))
	case StrV, SymStr:
		return e.strEq(a, b)
	case IfaceV:
		y := b.(IfaceV)
		if x.T == nil || y.T == nil {
			return Bool(x.T == nil && y.T == nil)
		}
		if !types.Identical(x.T, y.T) {
			return False
		}
		return e.keyEq(x.V, y.V)
	case *StructV:
		y := b.(*StructV)
		r := True
		for i := range x.F {
			r = And(r, e.keyEq(x.F[i], y.F[i]))
		}
		return r
	case *ArrayV:
		y := b.(*ArrayV)
		r := True
		for i := range x.E {
			r = And(r, e.keyEq(x.E[i], y.E[i]))
		}
		return r
	case PtrV:
		y := b.(PtrV)
		return Bool(x.Obj == y.Obj && pathEq(x.Path, y.Path))
	}
	unsupp("map key type %T", a)
	return nil
}

func (e *Engine) mapObj(s *State, m MapV) *MapObj {
	v, ok := e.heapGet(s, m.Obj)
	if !ok {
		unsupp("unknown map object")
	}
	mo, ok := v.(*MapObj)
	if !ok {
		unsupp("map object is %T", v)
	}
	return mo
}

func (e *Engine) mapUpdate(s *State, m MapV, k, v Value, in ssa.Instruction) {
	if m.Obj == 0 {
		e.panicNow(s, "assignment to entry in nil map", in)
		return
	}
	mo := e.mapObj(s, m)
	for i := range mo.Keys {
		eq := e.keyEq(mo.Keys[i], k)
		if eq == False {
			continue
		}
		if eq == True || !e.feasible(s, Not(eq)) {
			n := &MapObj{Keys: mo.Keys, Vals: append([]Value(nil), mo.Vals...)}
			n.Vals[i] = v
			s.Heap[m.Obj] = n
			return
		}
		if e.feasible(s, eq) {
			o := s.Clone()
			o.PC = append(o.PC, eq)
			n2 := &MapObj{Keys: mo.Keys, Vals: append([]Value(nil), mo.Vals...)}
			n2.Vals[i] = v
			o.Heap[m.Obj] = n2
			e.Pending = append(e.Pending, o)
			s.top()
		}
		s.PC = append(s.PC, Not(eq))
	}
	n := &MapObj{Keys: append(append([]Value(nil), mo.Keys...), k), Vals: append(append([]Value(nil), mo.Vals...), v)}
	s.Heap[m.Obj] = n
}

func (e *Engine) mapDelete(s *State, m MapV, k Value, in ssa.Instruction) {
	if m.Obj == 0 {
		return
	}
	mo := e.mapObj(s, m)
	for i := range mo.Keys {
		eq := e.keyEq(mo.Keys[i], k)
		if eq == False {
			continue
		}
		del := func(st *State) {
			n := &MapObj{}
			for j := range mo.Keys {
				if j != i {
					n.Keys = append(n.Keys, mo.Keys[j])
					n.Vals = append(n.Vals, mo.Vals[j])
				}
			}
			st.Heap[m.Obj] = n
		}
		if eq == True || !e.feasible(s, Not(eq)) {
			del(s)
			return
		}
		if e.feasible(s, eq) {
			o := s.Clone()
			o.PC = append(o.PC, eq)
			del(o)
			e.Pending = append(e.Pending, o)
			s.top()
		}
		s.PC = append(s.PC, Not(eq))
	}
}

func (e *Engine) lookup(s *State, f *Frame, x *ssa.Lookup) {
	k := e.get(s, f, x.Index)
	set := func(st *State, v Value, ok *Term) {
		if x.CommaOk {
			st.top().Locals[x] = TupleV{v, ok}
		} else {
			st.top().Locals[x] = v
		}
	}
	switch m := e.get(s, f, x.X).(type) {
	case MapV:
		vt := x.X.Type().Underlying().(*types.Map).Elem()
		if m.Obj != 0 {
			mo := e.mapObj(s, m)
			for i := len(mo.Keys) - 1; i >= 0; i-- {
				eq := e.keyEq(mo.Keys[i], k)
				if eq == False {
					continue
				}
				if eq == True || !e.feasible(s, Not(eq)) {
					set(s, mo.Vals[i], True)
					return
				}
				if e.feasible(s, eq) {
					o := s.Clone()
					o.PC = append(o.PC, eq)
					set(o, mo.Vals[i], True)
					e.Pending = append(e.Pending, o)
				}
				s.PC = append(s.PC, Not(eq))
			}
		}
		set(s, zeroValue(vt), False)
	case StrV, SymStr:
		// string indexing s[i]
		cells, _ := strCells(m)
		idx := idx64(k.(*Term), x.Index.Type())
		el, ok := e.indexElem(s, idx, I64(len(cells)), I64(0), x)
		if !ok {
			return
		}
		if el.Sym != nil {
			var r *Term = BVInt(0, 8)
			for i := len(cells) - 1; i >= 0; i-- {
				r = Ite(Eq(el.Sym, BVInt(int64(i), 64)), cells[i], r)
			}
			s.top().Locals[x] = r
		} else {
			s.top().Locals[x] = cells[el.Idx]
		}
	case UnknownV:
		unsupp("lookup in unknown map (%s)", m.Why)
	default:
		unsupp("lookup on %T", m)
	}
}

// ---- range ----

type rangeIter struct {
	Keys  []Value
	Vals  []Value
	Str   []*Term
	Runes []rune
	Offs  []int
	IsStr bool
}

func (e *Engine) rangeInit(s *State, f *Frame, x *ssa.Range) {
	switch m := e.get(s, f, x.X).(type) {
	case MapV:
		it := &rangeIter{}
		if m.Obj != 0 {
			mo := e.mapObj(s, m)
			it.Keys, it.Vals = mo.Keys, mo.Vals
		}
		n := len(it.Keys)
		if e.MapPerm && n >= 2 && n <= 4 {
			// map iteration order is unspecified: explore every order
			perms := permutations(n)
			for _, p := range perms[1:] {
				o := s.Clone()
				oi := &rangeIter{}
				for _, j := range p {
					oi.Keys = append(oi.Keys, it.Keys[j])
					oi.Vals = append(oi.Vals, it.Vals[j])
				}
				id := e.alloc(o, &StructV{F: []Value{I64(0)}})
				o.top().Locals[x] = &iterV{Obj: id, It: oi}
				e.Pending = append(e.Pending, o)
			}
			s.top()
			f = s.top()
		}
		id := e.alloc(s, &StructV{F: []Value{I64(0)}})
		f.Locals[x] = &iterV{Obj: id, It: it}
	case StrV:
		it := &rangeIter{IsStr: true}
		for i, r := range m.S {
			it.Runes = append(it.Runes, r)
			it.Offs = append(it.Offs, i)
		}
		id := e.alloc(s, &StructV{F: []Value{I64(0)}})
		f.Locals[x] = &iterV{Obj: id, It: it}
	case SymStr:
		// bytes are symbolic: sound only if all bytes are ASCII; assert that as a path constraint check
		it := &rangeIter{IsStr: true}
		for i, c := range m.Cells {
			if e.feasible(s, BVCmp("bvuge", c, BVInt(0x80, 8))) {
				unsupp("range over symbolic string with possibly non-ASCII bytes")
			}
			_ = c
			it.Offs = append(it.Offs, i)
		}
		it.Str = m.Cells
		id := e.alloc(s, &StructV{F: []Value{I64(0)}})
		f.Locals[x] = &iterV{Obj: id, It: it}
	default:
		unsupp("range over %T", m)
	}
}

type iterV struct {
	Obj int
	It  *rangeIter
}

func permutations(n int) [][]int {
	var out [][]int
	var rec func(cur []int, used []bool)
	rec = func(cur []int, used []bool) {
		if len(cur) == n {
			out = append(out, append([]int(nil), cur...))
			return
		}
		for i := 0; i < n; i++ {
			if !used[i] {
				used[i] = true
				rec(append(cur, i), used)
				used[i] = false
			}
		}
	}
	rec(nil, make([]bool, n))
	return out
}

func (e *Engine) rangeNext(s *State, f *Frame, x *ssa.Next) {
	iv, ok := e.get(s, f, x.Iter).(*iterV)
	if !ok {
		unsupp("next on %T", e.get(s, f, x.Iter))
	}
	cur, _ := e.heapGet(s, iv.Obj)
	i, _ := cint(cur.(*StructV).F[0].(*Term))
	it := iv.It
	tt := x.Type().(*types.Tuple)
	if it.IsStr {
		n := len(it.Offs)
		if i >= n {
			f.Locals[x] = TupleV{False, I64(0), BVInt(0, 32)}
			return
		}
		s.Heap[iv.Obj] = &StructV{F: []Value{I64(i + 1)}}
		if it.Str != nil {
			f.Locals[x] = TupleV{True, I64(it.Offs[i]), ZeroExt(24, it.Str[i])}
		} else {
			f.Locals[x] = TupleV{True, I64(it.Offs[i]), BVInt(int64(it.Runes[i]), 32)}
		}
		return
	}
	if i >= len(it.Keys) {
		f.Locals[x] = TupleV{False, zeroOrNil(tt.At(1).Type()), zeroOrNil(tt.At(2).Type())}
		return
	}
	s.Heap[iv.Obj] = &StructV{F: []Value{I64(i + 1)}}
	f.Locals[x] = TupleV{True, it.Keys[i], it.Vals[i]}
}

func zeroOrNil(t types.Type) Value {
	if b, ok := t.(*types.Basic); ok && b.Kind() == types.Invalid {
		return nil
	}
	return zeroValue(t)
}

// selectStmt: only receive cases are modelled. A nil channel is never ready; any other channel
// (ctx.Done() of a cancellable context, time.After) may be ready: one path per such case.
func (e *Engine) selectStmt(s *State, f *Frame, x *ssa.Select) {
	var ready []int
	for i, st := range x.States {
		if st.Dir != types.RecvOnly {
			unsupp("select with a send case")
		}
		ch, ok := e.get(s, f, st.Chan).(ChanV)
		if !ok {
			unsupp("select on %T", e.get(s, f, st.Chan))
		}
		if ch.Obj != 0 {
			ready = append(ready, i)
		}
	}
	mk := func(idx int) Value {
		tv := TupleV{I64(idx), True}
		for _, st := range x.States {
			tv = append(tv, zeroValue(st.Chan.Type().Underlying().(*types.Chan).Elem()))
		}
		return tv
	}
	if !x.Blocking {
		ready = append(ready, -1)
	}
	if len(ready) == 0 {
		s.Status = "unsupported: select blocks forever (no ready channel)"
		return
	}
	e.Stubs["select: any case whose channel is non-nil may fire"] = true
	for _, idx := range ready[1:] {
		o := s.Clone()
		o.top().Locals[x] = mk(idx)
		e.Pending = append(e.Pending, o)
	}
	s.top().Locals[x] = mk(ready[0])
}

func (e *Engine) describe(v Value) string {
	switch x := v.(type) {
	case *Term:
		return x.String()
	case StrV:
		return fmt.Sprintf("%q", x.S)
	}
	return fmt.Sprintf("%T", v)
}
