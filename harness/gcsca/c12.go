package gcsca

import (
	"crypto/x509"
	"time"

	"github.com/google/gce-tcb-verifier/cmd/output"

	"github.com/google/gce-tcb-verifier/rotate"
	sops "github.com/google/gce-tcb-verifier/sign/ops"
	styp "github.com/google/gce-tcb-verifier/sign/types"
)

// C12: chain-of-trust invariants after bootstrap and rotations, with the production template
// path (rotate.GoogleCertificateTemplate) and the non-production one (memkm: templates cloned from
// the predecessor certificate).

const verifDay = 24 * time.Hour

func verifCheckRoot(root *x509.Certificate) {
	verifAssert(root.IsCA && root.BasicConstraintsValid, "the root certificate is a CA certificate")
	verifAssert(root.KeyUsage&x509.KeyUsageCertSign != 0, "the root certificate has certificate-signing usage")
	verifAssert(root.Issuer.CommonName == root.Subject.CommonName && root.Issuer.SerialNumber == root.Subject.SerialNumber, "the root certificate is self-issued")
	verifAssert(root.NotAfter.Sub(root.NotBefore) == time.Duration(styp.RootValidDays)*verifDay, "the root certificate has the documented 25-year lifetime")
	rec := verifRecOf(root)
	verifAssert(rec != nil && rec.parent == nil, "the root certificate is self-signed")
}

func verifCheckSigning(c, root *x509.Certificate, created time.Time) {
	verifAssert(!c.IsCA, "a signing certificate is not a CA certificate")
	verifAssert(c.KeyUsage == x509.KeyUsageDigitalSignature, "a signing certificate has digital-signature usage only")
	verifAssert(c.SignatureAlgorithm == x509.SHA256WithRSAPSS && c.PublicKeyAlgorithm == x509.RSA, "a signing certificate is RSA-PSS/SHA-256")
	rec := verifRecOf(c)
	verifAssert(rec != nil && rec.parent == root && c.Issuer.CommonName == root.Subject.CommonName && c.Issuer.SerialNumber == root.Subject.SerialNumber, "a signing certificate is issued by the root")
	verifAssert(c.NotBefore == created && c.NotAfter.Sub(c.NotBefore) == time.Duration(styp.SignValidDays)*verifDay, "a signing certificate is valid five years plus one day from its creation time")
	verifAssert(c.SerialNumber != nil && c.SerialNumber.String() == c.Subject.SerialNumber, "the certificate serial equals the subject serial")
}

func verifC12(gcs, nonprod bool, rotations int) {
	f := verifNewFixture(gcs, nonprod)
	verifAssume(f.bootstrap() == nil, "fault-free bootstrap succeeds")
	ca := f.newCA()
	ctx := f.ctx(ca, false)
	first, _ := ca.PrimarySigningKeyVersion(ctx)
	root, err := sops.IssuerCertFromBundle(ctx, ca, first)
	verifAssert(err == nil, "root certificate stored after bootstrap")
	if err != nil {
		return
	}
	verifCheckRoot(root)
	prev, err := sops.CertificateX509(ctx, ca, first)
	verifAssert(err == nil, "first signing certificate stored after bootstrap")
	if err != nil {
		return
	}
	verifCheckSigning(prev, root, f.t0)
	prevName := first
	for r := 0; r < rotations; r++ {
		now := time.Unix(int64(verifNondetU32("t")), 0)
		cur := f.newCA()
		name, err := f.rotateOnce(cur, false, now)
		verifAssert(err == nil, "fault-free rotation succeeds")
		if err != nil {
			return
		}
		verifReach("rotated")
		cur = f.newCA()
		cctx := f.ctx(cur, false)
		c, err := sops.CertificateX509(cctx, cur, name)
		verifAssert(err == nil, "the new signing certificate is stored")
		if err != nil {
			return
		}
		verifCheckSigning(c, root, now)
		verifAssert(name != prevName, "key-version names are not reused")
		// serial = predecessor + 1 (no override given)
		ps, ok1 := newBig().SetString(prev.Subject.SerialNumber, 0)
		cs, ok2 := newBig().SetString(c.Subject.SerialNumber, 0)
		verifAssert(ok1 && ok2 && cs.Cmp(ps.Add(ps, bigOne())) == 0, "the new subject serial is one greater than its predecessor's")
		verifAssert(c.SerialNumber.Cmp(prev.SerialNumber) != 0, "two certificates from one issuer never share a certificate serial")
		// only the current primary can sign
		pk := f.signer.find(prevName)
		verifAssert(pk != nil && !pk.live, "the previous signing key is destroyed: only the current primary can sign")
		nk := f.signer.find(name)
		verifAssert(nk != nil && nk.live, "the current primary signing key is live")
		r2, err := sops.IssuerCertFromBundle(cctx, cur, name)
		verifAssert(err == nil && r2 == root, "the root certificate is unchanged by rotation")
		prev, prevName = c, name
	}
	_ = rotate.ErrKeyIsUsed
	verifReach("end")
}

func VerifC12MemProd1()    { verifC12(false, false, 1) }
func VerifC12GcsProd2()    { verifC12(true, false, 2) }
func VerifC12MemNonprod1() { verifC12(false, true, 1) }
func VerifC12MemNonprod2() { verifC12(false, true, 2) }
func VerifC12GcsNonprod1() { verifC12(true, true, 1) }

// No existing certificate object changes without overwrite permission: the storage-backed
// authority's single write gate, with the flags and the object's prior existence symbolic.
func VerifC12WriteGate() {
	f := verifNewFixture(true, false)
	ca := f.newCA().(*CertificateAuthority)
	overwrite, keepGoing := verifNondetBool("overwrite"), verifNondetBool("keep_going")
	ctx := output.NewContext(f.ctx(ca, false), &output.Options{Overwrite: overwrite, KeepGoing: keepGoing})
	existed := verifNondetBool("object_exists")
	old := []byte{0x0D}
	if existed {
		f.storage.put("certs/x.crt", old)
	}
	data := []byte{0x4E, 0x57}
	ex, err := ca.writeIfAllowed(ctx, "certs/x.crt", data)
	i := f.storage.find("certs/x.crt")
	if existed && !overwrite {
		verifReach("protected")
		verifAssert(i >= 0 && verifSameSlice(f.storage.objects[i].data, old), "an existing object is not rewritten without overwrite permission")
		verifAssert(ex, "the caller is told the object existed")
		verifAssert(keepGoing || err != nil, "without keep-going the attempt is an error")
	} else {
		verifAssert(err == nil && i >= 0 && len(f.storage.objects[i].data) == 2, "a new object, or an existing one with overwrite permission, is written")
	}
	verifReach("end")
}

// The same through a whole rotation whose certificate object name collides with an existing
// object (serial override equal to the current serial).
func VerifC12RotateNoClobber() {
	f := verifNewFixture(true, false)
	verifAssume(f.bootstrap() == nil, "fault-free bootstrap succeeds")
	ca := f.newCA()
	first, _ := ca.PrimarySigningKeyVersion(f.ctx(ca, false))
	path, _ := ca.(*CertificateAuthority).certPath(f.ctx(ca, false), first)
	i := f.storage.find(path)
	verifAssert(i >= 0, "the first signing certificate is stored")
	before := f.storage.objects[i].data
	keepGoing := verifNondetBool("keep_going")
	ctx := output.NewContext(f.ctx(ca, false), &output.Options{KeepGoing: keepGoing})
	// serial override 1 = the existing certificate's serial: same common name, same object name
	ctx = rotate.NewSigningKeyContext(ctx, &rotate.SigningKeyContext{SigningKeyCommonName: "sign-cn", SigningKeySerial: bigOne(), Now: time.Unix(int64(verifNondetU32("t")), 0)})
	_, err := rotate.Key(ctx)
	verifObserve("ok", err == nil)
	j := f.storage.find(path)
	verifAssert(j >= 0 && verifSameSlice(f.storage.objects[j].data, before), "a rotation without overwrite permission leaves the existing certificate object unchanged")
	// and whatever the rotation did (refuse, or carry on under --keep_going), the recorded primary
	// still has a certificate issued for that very key: an existing object is never taken over as the
	// certificate of another key
	if keepGoing {
		// recorded as a known finding: with --keep_going the write is skipped and the rotation carries
		// on, so the new primary ends up with the old key's certificate
		f.verifHealthy(f.newCA(), "after a colliding rotation under --keep_going")
	} else {
		f.verifHealthy(f.newCA(), "after a colliding rotation that is refused")
	}
	verifReach("end")
}

// Wipeout: after bootstrap and one rotation, rotate.Wipeout with either or both of its targets
// selected. With the authority selected, the very same authority object (which has served reads
// and holds whatever it caches) and a freshly loaded one must both have lost the primary, the
// certificates and the root; with the keys selected no key can sign any more; a target that is not
// selected is left alone.
func verifC12Wipeout(gcs bool) {
	f := verifNewFixture(gcs, false)
	verifAssume(f.bootstrap() == nil, "fault-free bootstrap succeeds")
	ca := f.newCA()
	_, err := f.rotateOnce(ca, false, time.Unix(int64(verifNondetU32("t")), 0))
	verifAssume(err == nil, "fault-free rotation succeeds")
	ctx := f.ctx(ca, false)
	primary, err := ca.PrimarySigningKeyVersion(ctx)
	verifAssert(err == nil, "a primary is recorded before the wipeout")
	_, err = sops.CertificateX509(ctx, ca, primary) // the authority has served reads before
	verifAssert(err == nil, "the primary's certificate is readable before the wipeout")
	wipeCA, wipeKeys := verifNondetBool("wipe_ca"), verifNondetBool("wipe_keys")
	werr := rotate.Wipeout(rotate.NewWipeoutContext(ctx, &rotate.WipeoutContext{CA: wipeCA, Keys: wipeKeys}))
	verifAssert(werr == nil, "a fault-free wipeout succeeds")
	verifObserve("wipe_ca", wipeCA)
	for i, a := range []styp.CertificateAuthority{ca, f.newCA()} {
		actx := f.ctx(a, false)
		pname, perr := a.PrimarySigningKeyVersion(actx)
		_, cerr := a.Certificate(actx, primary)
		_, rerr := a.CABundle(actx, primary)
		if wipeCA {
			verifAssert(perr != nil || pname == "", "after an authority wipeout no primary signing key is recorded (error or empty name)")
			verifAssert(cerr != nil, "after an authority wipeout the old primary's certificate is gone")
			verifAssert(rerr != nil, "after an authority wipeout the root certificate is gone")
			verifReach("ca-wiped")
		} else {
			verifAssert(perr == nil && pname == primary && cerr == nil, "an authority that was not selected for wipeout is left alone")
			verifReach("ca-kept")
		}
		_ = i
	}
	_, serr := f.signer.Sign(ctx, primary, styp.Digest{}, nil)
	if wipeKeys {
		verifAssert(serr != nil, "after a key wipeout the old primary cannot sign")
		verifReach("keys-wiped")
	} else {
		verifAssert(serr == nil, "keys that were not selected for wipeout are left alone")
	}
	verifReach("end")
}

func VerifC12WipeoutGcs() { verifC12Wipeout(true) }
func VerifC12WipeoutMem() { verifC12Wipeout(false) }

// The calendar model behind AddDate (runtime file) against the library: under the engine AddDate
// is the model, natively it is the library, and the observations of the witness paths must agree.
func VerifC12AddDate() {
	t := time.Unix(int64(verifNondetU32("t")), 0).UTC()
	a := t.AddDate(5, 0, 0)
	b := t.AddDate(0, 1, 0)
	c := t.AddDate(1, 11, 30)
	verifObserve("plus5y", a.Unix())
	verifObserve("plus1m", b.Unix())
	verifObserve("plus1y11m30d", c.Unix())
	// (no universally quantified assertion here: proving facts about the division chains is beyond
	// the solvers' time limits; finding instances, which is what a counterexample needs, is not)
	verifReach("end")
}

func VerifC12MemProd3()    { verifC12(false, false, 3) }
func VerifC12GcsNonprod3() { verifC12(true, true, 3) }
