package ovmf

import (
	"encoding/binary"

	"github.com/google/gce-tcb-verifier/ovmf/abi"
	"github.com/google/uuid"
)

// Fixed-shape firmware images: the GUID table shape (which entries exist and where they sit) is
// concrete, every other byte of the image -- all field values included -- stays symbolic.

func verifPutGUIDEntry(fw []byte, end int, size uint16, guid string) {
	// an entry is {size u16, EFI GUID} occupying [end-18, end)
	binary.LittleEndian.PutUint16(fw[end-18:], size)
	abi.PutUUID(fw[end-16:end], uuid.MustParse(guid))
}

const (
	verifTdxMetaOffset = 0x400 // metadata descriptor sits at len-0x400
)

// verifTdxImage: one GUID-table entry (TDX metadata offset block) pointing at a TDVF descriptor
// at a fixed position, preceded by the TDVF metadata GUID. Descriptor and section fields are
// left symbolic.
func verifTdxImage(n int) []byte {
	fw := verifNondetArr("fw", n)
	end := n - abi.FwGUIDTableEndOffset
	verifPutGUIDEntry(fw, end, 18+22, abi.FwGUIDTableFooterGUID)
	// block: {offset u32, size u16 = 22, guid}
	binary.LittleEndian.PutUint32(fw[end-18-22:], verifTdxMetaOffset)
	verifPutGUIDEntry(fw, end-18, 22, abi.TDXMetadataOffsetGUID)
	abi.PutUUID(fw[n-verifTdxMetaOffset-16:n-verifTdxMetaOffset], uuid.MustParse(abi.TDXMetadataGUID))
	return fw
}

func verifTdxSectionField(fw []byte, i, off, width int) uint64 {
	base := len(fw) - verifTdxMetaOffset + 16 + 32*i + off
	var v uint64
	for k := 0; k < width; k++ {
		v |= uint64(fw[base+k]) << (8 * uint(k))
	}
	return v
}

const (
	verifSevMetaOffset = 0x300
)

// verifSevImage: GUID table with the SEV-ES reset block and the SEV metadata offset block, SNP
// metadata header at len-0x300 with nsec sections. Reset address, section fields and all other
// image bytes are symbolic; signature, length and section count are set to be consistent.
func verifSevImage(n, nsec int) []byte {
	fw := verifNondetArr("fw", n)
	end := n - abi.FwGUIDTableEndOffset
	verifPutGUIDEntry(fw, end, 18+22+22, abi.FwGUIDTableFooterGUID)
	// metadata offset block {offset u32, size u16, guid}
	binary.LittleEndian.PutUint32(fw[end-18-22:], verifSevMetaOffset)
	verifPutGUIDEntry(fw, end-18, 22, abi.SevMetadataOffsetGUID)
	// reset block {addr u32 (symbolic), size u16, guid}
	verifPutGUIDEntry(fw, end-18-22, 22, abi.SevEsResetBlockGUID)
	m := n - verifSevMetaOffset
	binary.LittleEndian.PutUint32(fw[m:], abi.SevSnpMetadataSignature)
	binary.LittleEndian.PutUint32(fw[m+4:], uint32(16+12*nsec))
	binary.LittleEndian.PutUint32(fw[m+12:], uint32(nsec))
	return fw
}

func verifSevSection(fw []byte, i int) (addr, length, kind uint32) {
	m := len(fw) - verifSevMetaOffset + 16 + 12*i
	return binary.LittleEndian.Uint32(fw[m:]), binary.LittleEndian.Uint32(fw[m+4:]), binary.LittleEndian.Uint32(fw[m+8:])
}

func verifSevResetAddr(fw []byte) uint32 {
	end := len(fw) - abi.FwGUIDTableEndOffset
	return binary.LittleEndian.Uint32(fw[end-18-22-22:])
}
