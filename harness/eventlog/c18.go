package eventlog

import (
	"bytes"
)

// C18 (event-log codecs): Marshal/Unmarshal pairs are mutually inverse with exact sizes, and a
// truncated size-prefixed string or array is refused rather than completed with zeros.

func verifStrNoNul(name string, n int) string {
	s := verifNondetStr(name, n)
	for i := 0; i < n; i++ {
		verifAssume(s[i] != 0, "string content has no NUL byte")
	}
	return s
}

func verifC18CStr(n int) {
	v := ByteSizedCStr{Data: verifStrNoNul("s", n)}
	w := bytes.NewBuffer(nil)
	verifAssert(v.Marshal(w) == nil, "a short string marshals")
	b := w.Bytes()
	verifAssert(len(b) == n+2 && int(b[0]) == n+1 && b[n+1] == 0, "byte-sized C string: size byte counting the terminator, content, NUL")
	var back ByteSizedCStr
	verifAssert(back.Unmarshal(bytes.NewBuffer(b)) == nil && back.Data == v.Data, "decode(encode(s)) == s")
	// truncated: every proper prefix is refused
	for k := 0; k < len(b); k++ {
		var t ByteSizedCStr
		verifAssert(t.Unmarshal(bytes.NewBuffer(b[:k])) != nil, "a truncated byte-sized string is refused, not zero-filled")
	}
	verifReach("end")
}

func VerifC18CStr0() { verifC18CStr(0) }
func VerifC18CStr3() { verifC18CStr(3) }

// Decode-then-encode on arbitrary bytes: whatever the decoder accepts re-encodes to exactly the
// bytes it consumed (a value is never silently shortened or completed).
func verifC18CStrBytes(n int) {
	b := verifNondetBytes("raw", n)
	r := bytes.NewBuffer(b)
	var v ByteSizedCStr
	if v.Unmarshal(r) != nil {
		verifReach("refused")
		return
	}
	consumed := n - r.Len()
	w := bytes.NewBuffer(nil)
	verifAssert(v.Marshal(w) == nil, "an accepted byte-sized string marshals")
	verifAssert(bytes.Equal(w.Bytes(), b[:consumed]), "an accepted byte-sized string re-encodes to the bytes that were read")
	verifObserve("consumed", consumed)
	verifReach("accepted")
}

func VerifC18CStrBytes5() { verifC18CStrBytes(5) }

func verifC18ArrayBytes(n int) {
	b := verifNondetBytes("raw", n)
	r := bytes.NewBuffer(b)
	var v Uint32SizedArray
	if v.Unmarshal(r) != nil {
		verifReach("refused")
		return
	}
	consumed := n - r.Len()
	w := bytes.NewBuffer(nil)
	verifAssert(v.Marshal(w) == nil, "an accepted uint32-sized array marshals")
	verifAssert(bytes.Equal(w.Bytes(), b[:consumed]), "an accepted uint32-sized array re-encodes to the bytes that were read")
	verifObserve("consumed", consumed)
	verifReach("accepted")
}

func VerifC18ArrayBytes7() { verifC18ArrayBytes(7) }

func verifC18Array(n int) {
	v := Uint32SizedArray{Data: verifNondetBytes("a", n)}
	w := bytes.NewBuffer(nil)
	verifAssert(v.Marshal(w) == nil, "a short array marshals")
	b := w.Bytes()
	verifAssert(len(b) == n+4 && int(b[0]) == n && b[1] == 0 && b[2] == 0 && b[3] == 0, "uint32-sized array: little-endian size then content")
	var back Uint32SizedArray
	verifAssert(back.Unmarshal(bytes.NewBuffer(b)) == nil && bytes.Equal(back.Data, v.Data), "decode(encode(a)) == a")
	for k := 0; k < len(b); k++ {
		var t Uint32SizedArray
		verifAssert(t.Unmarshal(bytes.NewBuffer(b[:k])) != nil, "a truncated uint32-sized array is refused, not zero-filled")
	}
	verifReach("end")
}

func VerifC18Array0() {
	v := Uint32SizedArray{}
	w := bytes.NewBuffer(nil)
	verifAssert(v.Marshal(w) == nil && len(w.Bytes()) == 4, "an empty array is just its size")
	var back Uint32SizedArray
	verifAssert(back.Unmarshal(bytes.NewBuffer(w.Bytes())) == nil && len(back.Data) == 0, "decode(encode(empty)) is empty")
	verifReach("end")
}
func VerifC18Array3() { verifC18Array(3) }

func VerifC18Digest() {
	alg := verifNondetU16("alg")
	size, known := tpmAlgoSize[alg]
	if !known {
		d := TaggedDigest{AlgID: alg, Digest: []byte{1}}
		verifAssert(d.Marshal(bytes.NewBuffer(nil)) != nil, "an unknown digest algorithm is refused")
		verifReach("unknown-alg")
		verifReach("end")
		return
	}
	d := TaggedDigest{AlgID: alg, Digest: verifNondetBytes("digest", size)}
	w := bytes.NewBuffer(nil)
	verifAssert(d.Marshal(w) == nil, "a digest of the algorithm's size marshals")
	b := w.Bytes()
	verifAssert(len(b) == 2+size && uint16(b[0])|uint16(b[1])<<8 == alg, "tagged digest: little-endian algorithm id then the digest")
	var back TaggedDigest
	verifAssert(back.Unmarshal(bytes.NewBuffer(b)) == nil && back.AlgID == alg && bytes.Equal(back.Digest, d.Digest), "decode(encode(d)) == d")
	var t TaggedDigest
	verifAssert(t.Unmarshal(bytes.NewBuffer(b[:len(b)-1])) != nil, "a truncated digest is refused")
	wrong := TaggedDigest{AlgID: alg, Digest: d.Digest[:size-1]}
	verifAssert(wrong.Marshal(bytes.NewBuffer(nil)) != nil, "a digest of the wrong size is refused")
	verifReach("end")
}

func VerifC18GUID() {
	var g EfiGUID
	copy(g.UUID[:], verifNondetBytes("guid", 16))
	w := bytes.NewBuffer(nil)
	verifAssert(g.Marshal(w) == nil && len(w.Bytes()) == 16, "an EFI GUID is 16 bytes")
	var back EfiGUID
	verifAssert(back.Unmarshal(bytes.NewBuffer(w.Bytes())) == nil && back == g, "decode(encode(g)) == g")
	var t EfiGUID
	verifAssert(t.Unmarshal(bytes.NewBuffer(w.Bytes()[:15])) != nil, "a truncated GUID is refused")
	verifReach("end")
}

func verifEvent2() *TCGPCREvent2 {
	e := &TCGPCREvent2{PCRIndex: verifNondetU32("pcr"), EventType: verifNondetU32("type")}
	e.Digests.Array = []*TaggedDigest{{AlgID: tpmAlgSHA1, Digest: verifNondetBytes("sha1", 20)}}
	e.EventData.Event = &UnknownEvent{Data: verifNondetBytes("data", 3)}
	return e
}

func VerifC18Log() {
	var cel CryptoAgileLog
	cel.Header = TCGPCClientPCREvent{PCRIndex: verifNondetU32("hpcr"), EventType: verifNondetU32("htype")}
	copy(cel.Header.SHA1Digest[:], verifNondetBytes("hsha1", 20))
	cel.Header.EventData.Event = &UnknownEvent{Data: verifNondetBytes("hdata", 2)}
	cel.Events = []*TCGPCREvent2{verifEvent2(), verifEvent2()}
	w := bytes.NewBuffer(nil)
	verifAssert(cel.Marshal(w) == nil, "a small log marshals")
	b := w.Bytes()
	verifAssert(len(b) == (4+4+20+4+2)+2*(4+4+4+2+20+4+3), "log size = header event + two events, field by field")
	var back CryptoAgileLog
	verifAssert(back.Unmarshal(bytes.NewBuffer(b)) == nil && len(back.Events) == 2, "the log parses back with both events")
	verifAssert(back.Header.PCRIndex == cel.Header.PCRIndex && back.Header.EventType == cel.Header.EventType && back.Header.SHA1Digest == cel.Header.SHA1Digest, "header fields survive the round trip")
	for i := 0; i < 2 && i < len(back.Events); i++ {
		verifAssert(back.Events[i].PCRIndex == cel.Events[i].PCRIndex && back.Events[i].EventType == cel.Events[i].EventType && len(back.Events[i].Digests.Array) == 1 &&
			bytes.Equal(back.Events[i].Digests.Array[0].Digest, cel.Events[i].Digests.Array[0].Digest), "event fields survive the round trip")
		ue, ok := back.Events[i].EventData.Event.(*UnknownEvent)
		verifAssert(ok && bytes.Equal(ue.Data, cel.Events[i].EventData.Event.(*UnknownEvent).Data), "event data survives the round trip")
	}
	w2 := bytes.NewBuffer(nil)
	verifAssert(back.Marshal(w2) == nil && bytes.Equal(w2.Bytes(), b), "an accepted log re-encodes to the same bytes")
	verifObserve("len", len(b))
	verifReach("end")
}

// Length boundary of the byte-sized string: 254 content bytes (size byte 255) is the largest value
// and must round-trip; 255 content bytes does not fit the size byte and must be refused.
func VerifC18CStrMax() {
	v := ByteSizedCStr{Data: verifStrNoNul("s", 254)}
	w := bytes.NewBuffer(nil)
	verifAssert(v.Marshal(w) == nil, "the longest byte-sized string (254 bytes) marshals")
	b := w.Bytes()
	verifAssert(len(b) == 256 && b[0] == 255 && b[255] == 0, "size byte 255, content, terminator")
	var back ByteSizedCStr
	verifAssert(back.Unmarshal(bytes.NewBuffer(b)) == nil && back.Data == v.Data, "decode(encode(s)) == s at the maximum length")
	long := ByteSizedCStr{Data: v.Data + "x"}
	verifAssert(long.Marshal(bytes.NewBuffer(nil)) != nil, "a string that does not fit the size byte is refused")
	verifReach("end")
}
