package gcsca

import (
	"time"

	sops "github.com/google/gce-tcb-verifier/sign/ops"
)

// C11: the certificate-authority store is consistent at every crash point. The real
// rotate.Bootstrap and rotate.Key run over the storage-backed authority; afterwards the store is
// rebuilt for every prefix of the object-write log and the real reload path (readManifest,
// getEntry, Certificate, CABundle) is run on it. Map iteration order of pending uploads is
// explored in every order.

func (f *verifFixture) verifStoreConsistent(when string) {
	ca := f.newCA().(*CertificateAuthority)
	ctx := f.ctx(ca, false)
	m, err := ca.readManifest(ctx)
	verifAssert(err == nil, when+": the manifest parses (or is absent)")
	if err != nil {
		return
	}
	for _, e := range m.Entries {
		der, err := ca.Certificate(ctx, e.KeyVersionName)
		verifAssert(err == nil, when+": every key version listed in the manifest resolves to a stored, parseable certificate")
		_ = der
	}
	if m.PrimarySigningKeyVersionName != "" {
		der, err := ca.Certificate(ctx, m.PrimarySigningKeyVersionName)
		verifAssert(err == nil, when+": the recorded primary signing key has a stored certificate")
		if err == nil {
			cert, _ := verifParseCertificate(der)
			root, err := sops.IssuerCertFromBundle(ctx, ca, m.PrimarySigningKeyVersionName)
			verifAssert(err == nil, when+": the root certificate is stored")
			if err == nil {
				rec := verifRecOf(cert)
				verifAssert(rec != nil && rec.parent == root, when+": the primary's certificate verifies under the stored root")
			}
		}
	}
}

func (f *verifFixture) verifCheckPrefixes(initial []verifObject, log []verifWrite, what string) {
	saved := f.storage.objects
	for k := 0; k <= len(log); k++ {
		f.storage.objects = append([]verifObject(nil), initial...)
		for _, w := range log[:k] {
			f.storage.put(w.name, w.data)
		}
		f.verifStoreConsistent(what)
	}
	// the manifest is never written ahead of the certificates it references: covered by the
	// prefix check above (a manifest naming a missing object fails it)
	f.storage.objects = saved
}

func verifC11(rotations int) {
	verifMapPerm(true)
	f := verifNewFixture(true, false)
	err := f.bootstrap()
	verifAssert(err == nil, "fault-free bootstrap of an empty store succeeds")
	verifReach("bootstrapped")
	f.verifCheckPrefixes(nil, f.storage.log, "bootstrap prefix")
	for r := 0; r < rotations; r++ {
		initial := append([]verifObject(nil), f.storage.objects...)
		f.storage.log = nil
		_, err := f.rotateOnce(f.newCA(), false, time.Unix(int64(verifNondetU32("t")), 0))
		verifAssert(err == nil, "fault-free rotation succeeds")
		verifReach("rotated")
		f.verifCheckPrefixes(initial, f.storage.log, "rotation prefix")
	}
	verifObserve("writes", len(f.storage.log))
	verifReach("end")
}

func VerifC11Bootstrap() { verifC11(0) }
func VerifC11Rotate1()   { verifC11(1) }
func VerifC11Rotate2()   { verifC11(2) }

func VerifC11Rotate3() { verifC11(3) }

// A rotation that stopped at any point of its object writes is retried with --overwrite on the
// store it left behind (the new key's certificate object may already exist under the name the
// retry derives again from the unchanged primary): every prefix of the retry's writes is consistent too.
func VerifC11RotateRetry() {
	verifMapPerm(true)
	f := verifNewFixture(true, false)
	err := f.bootstrap()
	verifAssert(err == nil, "fault-free bootstrap of an empty store succeeds")
	initial := append([]verifObject(nil), f.storage.objects...)
	f.storage.log = nil
	_, err = f.rotateOnce(f.newCA(), false, time.Unix(int64(verifNondetU32("t")), 0))
	verifAssert(err == nil, "fault-free rotation succeeds")
	first := f.storage.log
	t2 := time.Unix(int64(verifNondetU32("t2")), 0)
	for k := 0; k < len(first); k++ {
		f.storage.objects = append([]verifObject(nil), initial...)
		for _, w := range first[:k] {
			f.storage.put(w.name, w.data)
		}
		stopped := append([]verifObject(nil), f.storage.objects...)
		f.storage.log = nil
		_, err := f.rotateOnce(f.newCA(), true, t2)
		verifObserve("retry_ok", err == nil)
		if len(f.storage.log) > 0 {
			verifReach("retry-wrote")
		}
		f.verifCheckPrefixes(stopped, f.storage.log, "retried rotation prefix")
	}
	verifReach("end")
}
