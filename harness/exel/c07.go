package eventlog

import (
	"errors"

	"github.com/google/gce-tcb-verifier/eventlog"
	"github.com/google/uuid"
)

// C07 / C16 (locator resolution): Locate and variableLocatorDecode are total on every locator
// byte string, and a UEFI-variable locator is resolved only through the secure join of the
// complete file name under the configured root.

//verif:cut github.com/cyphar/filepath-securejoin.SecureJoin verifSecureJoin
//verif:cut os.ReadFile verifReadFile
//verif:cut github.com/google/gce-tcb-verifier/extract/eventlog.ucs2toUTF8 verifUcs2

var (
	verifJoinRoot, verifJoinArg, verifJoinResult string
	verifJoins                                  int
	verifReadPaths                              []string
	verifName                                   string
	verifErrIO                                  = errors.New("verif: io")
)

func verifSecureJoin(root, unsafePath string) (string, error) {
	verifJoins++
	verifJoinRoot, verifJoinArg = root, unsafePath
	verifJoinResult = root + "/<confined>"
	return verifJoinResult, nil
}

func verifReadFile(name string) ([]byte, error) {
	verifReadPaths = append(verifReadPaths, name)
	if verifNondetBool("read_fails") {
		return nil, verifErrIO
	}
	n := verifConcretize(int(verifNondetU8("file_len")%7), 0, 6)
	return verifNondetBytes("file", n), nil
}

func verifUcs2(name []uint8) (string, error) {
	if verifNondetBool("name_undecodable") {
		return "", verifErrIO
	}
	return verifName, nil
}

type verifGetter struct{ urls []string }

func (g *verifGetter) Get(url string) ([]byte, error) {
	g.urls = append(g.urls, url)
	return []byte{1}, nil
}

func verifC07Locate(max int) {
	n := verifNondetInt("len")
	verifAssume(n >= 0 && n <= max, "locator length within the stated bound")
	loc := verifNondetArr("locator", n)
	typ := verifNondetU32("locator_type")
	verifName = "Var"
	opts := &LocateOptions{UEFIVariableReader: MakeEfiVarFSReader("/efi")}
	if verifNondetBool("has_getter") {
		opts.Getter = &verifGetter{}
	}
	out, err := Locate(typ, loc, opts)
	verifObserve("ok", err == nil)
	if err == nil && typ == eventlog.RIMLocationRaw {
		verifAssert(verifSameSlice(out, loc), "a raw locator is returned byte for byte")
		verifReach("raw")
	}
	if typ == eventlog.RIMLocationVariable && err == nil {
		verifReach("variable")
	}
	verifReach("end")
}

func VerifC07Locate24() { verifC07Locate(24) }

// Confinement routing: the file that is read is exactly what the secure join of
// "<name>-<guid>" under the configured root returned.
func VerifC16Confine() {
	names := []string{"Var", "..", ".", "../x", "a/../..", "/"}
	verifName = names[verifConcretize(int(verifNondetU8("which_name")%6), 0, 5)]
	var g uuid.UUID
	copy(g[:], verifNondetBytes("guid", 16))
	r := MakeEfiVarFSReader("/efi")
	out, err := r.ReadVariable(g, []uint8{'x', 0, 0, 0})
	verifObserve("ok", err == nil)
	if len(verifReadPaths) > 0 {
		verifReach("read")
		verifAssert(verifJoins == 1 && verifJoinRoot == "/efi", "the variable path is secure-joined under the configured efivarfs root")
		verifAssert(verifJoinArg == verifName+"-"+g.String(), "the complete file name <name>-<guid> is what gets confined")
		verifAssert(len(verifReadPaths) == 1 && verifReadPaths[0] == verifJoinResult, "the file opened is exactly the confined path, nothing appended or re-derived")
	}
	if err == nil {
		verifAssert(len(verifReadPaths) == 1 && out != nil || len(out) == 0, "contents come from that one file")
	}
	verifReach("end")
}
