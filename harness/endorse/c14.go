package endorse

import (
	"context"
	"time"

	"github.com/google/gce-tcb-verifier/cmd/output"
	epb "github.com/google/gce-tcb-verifier/proto/endorsement"
)

// C14: commit retries are bounded, fresh and honest. The real RetrySubmit, tryChange and
// changeEndorsements (through commitEndorsement) run over the scripted double; every call may
// fail, the back end classifies each failure arbitrarily, the retry budget is symbolic, and a
// concurrent writer may commit another entry before any attempt.

func verifC14(lo, hi int) {
	retries := verifNondetInt("retries")
	verifAssume(retries >= lo && retries <= hi, "retry budget within the stated range")
	vcs := &verifVCS{head: &verifStore{}, faults: true, concurrent: true}
	vcs.maxAttempts = 1
	if retries > 0 {
		vcs.maxAttempts = retries + 1
	}
	vcs.otherEntry = verifEntry{path: "other.binarypb", digest: []byte{0xAA}, hasTime: true, sec: 7}
	vcs.head.put("out/other.binarypb", []byte{1})
	ec := &Context{VCS: vcs, CommitRetries: retries, OutDir: "out", Image: verifNondetBytes("image", 1),
		CandidateName: "cand", Timestamp: time.Unix(int64(verifNondetU32("ts")), 0)}
	ctx := NewContext(context.Background(), ec)
	ctx = output.NewContext(ctx, &output.Options{})
	end := &epb.VMLaunchEndorsement{SerializedUefiGolden: []byte{1}, Signature: []byte{2}}
	err := commitEndorsement(ctx, end)

	max := retries
	if max < 0 {
		max = 0
	}
	verifObserve("attempts", vcs.attempts)
	verifObserve("ok", err == nil)
	verifAssert(vcs.attempts >= 1, "at least one attempt")
	verifAssert(vcs.attempts <= max+1, "at most retries+1 attempts")
	verifAssert(!vcs.retriedAfterNonRetriable, "no new attempt after an error the back end did not mark retriable")
	verifAssert(vcs.getCalls == vcs.attempts, "one workspace request per attempt")
	verifAssert((err == nil) == (vcs.commits == 1), "success reported exactly when a commit succeeded")
	verifAssert(vcs.commits <= 1, "at most one commit")
	verifAssert(vcs.results == vcs.commits, "the commit is recorded exactly once")
	for i := 0; i < len(vcs.workspaces); i++ {
		w := vcs.workspaces[i]
		verifAssert(w.committed || w.destroyed, "workspace of a failed attempt is released")
		verifAssert(!(w.committed && w.destroyed), "committed workspace is not destroyed")
		if i+1 < len(vcs.workspaces) {
			verifAssert(!w.committed, "no attempt after a successful commit")
		}
		// the manifest is read from this attempt's own workspace
		sawRead := false
		for _, r := range w.reads {
			if r == releaseManifestPath {
				sawRead = true
			}
		}
		if w.committed {
			verifAssert(sawRead, "the committing attempt re-read the manifest from its own workspace")
		}
	}
	if err == nil {
		verifReach("success")
		last := vcs.workspaces[len(vcs.workspaces)-1]
		verifAssert(vcs.resultCommit == any(last.id), "recorded commit is the successful attempt's")
		verifAssert(vcs.resultPath == "cand.binarypb", "recorded path is the endorsement written")
		// entries committed concurrently by someone else are never dropped
		i := vcs.head.find(releaseManifestPath)
		verifAssert(i >= 0, "manifest committed")
		if i >= 0 {
			ents := verifManifestOf(vcs.head.files[i].contents)
			hasOther, hasNew := false, false
			for _, e := range ents {
				if e.path == "other.binarypb" {
					hasOther = true
				}
				if e.path == "cand.binarypb" {
					hasNew = true
				}
			}
			verifAssert(hasNew, "committed manifest has the new entry")
			verifAssert(hasOther == last.sawOther, "concurrently committed entry is kept (manifest re-read per attempt)")
			if last.sawOther {
				verifReach("kept-concurrent-entry")
			}
		}
	} else {
		verifReach("failure")
	}
	verifReach("end")
}

func VerifC14Quick()    { verifC14(-1, 2) }
func VerifC14Thorough() { verifC14(-2, 3) }
