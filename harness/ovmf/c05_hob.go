package ovmf

import (
	"encoding/binary"

	"github.com/google/gce-tcb-verifier/ovmf/abi"
)

// C05 L4: the TD hand-off block list is byte-for-byte the PI-spec layout: a 56-byte hand-off
// info table (type 1, length 56, version 9, boot mode 0, end-of-list pointer), one 48-byte
// system-memory resource descriptor per declared section in declared order, one unaccepted-memory
// descriptor per unaccepted range (early-accept attribute below 4 GiB, or everywhere unless
// early accept is disabled), an 8-byte end marker, zero padding up to the section size.

func verifRefDescriptor(b []byte, typ, attr uint32, start, length uint64) {
	binary.LittleEndian.PutUint16(b[0:], 3)
	binary.LittleEndian.PutUint16(b[2:], 48)
	// reserved 4..8, owner GUID 8..24: zero
	binary.LittleEndian.PutUint32(b[24:], typ)
	binary.LittleEndian.PutUint32(b[28:], attr)
	binary.LittleEndian.PutUint64(b[32:], start)
	binary.LittleEndian.PutUint64(b[40:], length)
}

func verifC05HOB(npriv, nun int, disableEarly bool) {
	hobStart := verifNondetU64("hob_start")
	const hobLen = 0x400
	var priv, un []GuestPhysicalRegion
	for i := 0; i < npriv; i++ {
		priv = append(priv, GuestPhysicalRegion{Start: abi.EFIPhysicalAddress(verifNondetU64("priv_start")), Length: verifNondetU64("priv_len")})
	}
	for i := 0; i < nun; i++ {
		r := GuestPhysicalRegion{Start: abi.EFIPhysicalAddress(verifNondetU64("un_start")), Length: verifNondetU64("un_len")}
		verifAssume(uint64(r.Start)+r.Length >= uint64(r.Start), "unaccepted ranges do not wrap")
		un = append(un, r)
	}
	p := &tdxFwParser{DisableEarlyAccept: disableEarly, TDHOBregion: &MaterialGuestPhysicalRegion{GPR: GuestPhysicalRegion{Start: abi.EFIPhysicalAddress(hobStart), Length: hobLen}}}
	err := p.getTDHOBList(priv, un)
	verifAssert(err == nil, "a hand-off list that fits its section is produced")
	got := p.TDHOBregion.HostBuffer
	verifAssert(len(got) == hobLen, "the hand-off buffer fills the section exactly")
	want := make([]byte, hobLen)
	n := npriv + nun
	binary.LittleEndian.PutUint16(want[0:], 1)
	binary.LittleEndian.PutUint16(want[2:], 56)
	binary.LittleEndian.PutUint32(want[8:], 9)
	binary.LittleEndian.PutUint64(want[48:], hobStart+56+48*uint64(n))
	off := 56
	for _, r := range priv {
		verifRefDescriptor(want[off:], 0, 7, uint64(r.Start), r.Length)
		off += 48
	}
	for _, r := range un {
		attr := uint32(7)
		if uint64(r.Start)+r.Length <= 4<<30 || !disableEarly {
			attr |= 0x10000000
		}
		verifRefDescriptor(want[off:], 7, attr, uint64(r.Start), r.Length)
		off += 48
	}
	binary.LittleEndian.PutUint16(want[off:], 0xFFFF)
	binary.LittleEndian.PutUint16(want[off+2:], 8)
	eq := len(got) == len(want)
	for i := 0; i < hobLen && i < len(got); i++ {
		eq = eq && got[i] == want[i]
	}
	verifAssert(eq, "hand-off block list bytes equal the reference layout")
	verifObserve("b0", got[0])
	verifReach("end")
}

func VerifC05HOB00()  { verifC05HOB(0, 0, true) }
func VerifC05HOB21()  { verifC05HOB(2, 1, true) }
func VerifC05HOB12()  { verifC05HOB(1, 2, true) }
func VerifC05HOB22E() { verifC05HOB(2, 2, false) }

// An over-full list is refused rather than truncated.
func VerifC05HOBOverflow() {
	p := &tdxFwParser{TDHOBregion: &MaterialGuestPhysicalRegion{GPR: GuestPhysicalRegion{Start: 0x1000, Length: 100}}}
	err := p.getTDHOBList([]GuestPhysicalRegion{{Start: 0, Length: 4096}}, nil)
	verifAssert(err != nil, "a list longer than its section is refused")
	verifReach("end")
}

// C05 L6: TDVF sections map to regions in declared order; firmware-volume sections carry the
// image bytes; measure-all mode sets the extend attribute on every section; the hand-off section's
// buffer is the hand-off list of all sections plus RAM minus sections.
func verifTdxValidImage(n int) ([]byte, uint64, uint64) {
	fw := verifTdxImage(n)
	m := n - verifTdxMetaOffset
	binary.LittleEndian.PutUint32(fw[m:], abi.TDXMetadataDescriptorMagic)
	binary.LittleEndian.PutUint32(fw[m+4:], 16+3*32)
	binary.LittleEndian.PutUint32(fw[m+8:], 1)
	binary.LittleEndian.PutUint32(fw[m+12:], 3)
	put := func(i int, off, size uint32, base, msize uint64, typ uint32) {
		s := m + 16 + 32*i
		binary.LittleEndian.PutUint32(fw[s:], off)
		binary.LittleEndian.PutUint32(fw[s+4:], size)
		binary.LittleEndian.PutUint64(fw[s+8:], base)
		binary.LittleEndian.PutUint64(fw[s+16:], msize)
		binary.LittleEndian.PutUint32(fw[s+24:], typ)
		// attributes stay symbolic
	}
	hobBase := verifNondetU64("hob_base")
	tmpBase := verifNondetU64("temp_base")
	verifAssume(hobBase%4096 == 0 && tmpBase%4096 == 0 && hobBase < 1<<31 && tmpBase < 1<<31, "section bases are page-aligned and low")
	verifAssume(hobBase+0x1000 <= tmpBase || tmpBase+0x1000 <= hobBase, "hand-off and temp sections do not overlap")
	put(0, 0, uint32(n), uint64(4<<30)-uint64(n), uint64(n), abi.TDXMetadataSectionTypeBFV)
	put(1, 0, 0, hobBase, 0x1000, abi.TDXMetadataSectionTypeTDHOB)
	put(2, 0, 0, tmpBase, 0x1000, abi.TDXMetadataSectionTypeTempMem)
	return fw, hobBase, tmpBase
}

func verifC05Parse(measureAll bool) {
	const n = 4096
	fw, hobBase, tmpBase := verifTdxValidImage(n)
	var regions []*MaterialGuestPhysicalRegion
	var err error
	if measureAll {
		regions, err = ExtractMaterialGuestPhysicalRegionsTDHOBBug(fw, []GuestPhysicalRegion{{Start: 0, Length: 3 * gib}})
	} else {
		regions, err = ExtractMaterialGuestPhysicalRegions(fw)
	}
	verifAssert(err == nil && len(regions) == 3, "a well-formed three-section image yields three regions")
	if err != nil || len(regions) != 3 {
		return
	}
	verifAssert(uint64(regions[0].GPR.Start) == uint64(4<<30)-n && regions[0].GPR.Length == n, "firmware volume region = declared base and size")
	verifAssert(uint64(regions[1].GPR.Start) == hobBase && regions[1].GPR.Length == 0x1000 && uint64(regions[2].GPR.Start) == tmpBase && regions[2].GPR.Length == 0x1000, "regions follow the declared order with the declared bases and sizes")
	verifAssert(verifSameSlice(regions[0].HostBuffer, fw), "the firmware volume is measured from the image bytes themselves")
	for i := 0; i < 3; i++ {
		attr := uint32(verifTdxSectionField(fw, i, 28, 4))
		if measureAll {
			verifAssert(regions[i].TDVFAttributes == attr|abi.TDXMetadataAttributeExtendMR, "measure-all mode sets the extend attribute on every section")
		} else {
			verifAssert(regions[i].TDVFAttributes == attr, "default mode keeps the declared attributes")
		}
	}
	verifAssert(len(regions[1].HostBuffer) == 0x1000, "the hand-off section carries a full-size hand-off list")
	if measureAll {
		verifAssert(len(regions[2].HostBuffer) == 0x1000, "measure-all mode gives the temp section a zero buffer")
	} else {
		verifAssert(len(regions[2].HostBuffer) == 0, "default mode: temp section is page-added only")
	}
	// hand-off list head: three section descriptors in declared order
	hob := regions[1].HostBuffer
	verifAssert(binary.LittleEndian.Uint64(hob[56+32:]) == uint64(4<<30)-n && binary.LittleEndian.Uint64(hob[56+48+32:]) == hobBase && binary.LittleEndian.Uint64(hob[56+96+32:]) == tmpBase, "hand-off list describes the sections in declared order")
	verifReach("end")
}

func VerifC05ParseDefault() { verifC05Parse(false) }
func VerifC05ParseAll()     { verifC05Parse(true) }
