package ovmf

import "github.com/google/gce-tcb-verifier/ovmf/abi"

// C05 L3: unacceptedMemRanges(private, ram) = ram \ private, ascending, disjoint, non-empty
// pieces, for every pair of non-overlapping interval lists.

func verifIn(x uint64, r GuestPhysicalRegion) bool {
	return x >= uint64(r.Start) && x-uint64(r.Start) < r.Length
}

func verifDisjoint(a, b GuestPhysicalRegion) bool {
	return uint64(a.Start)+a.Length <= uint64(b.Start) || uint64(b.Start)+b.Length <= uint64(a.Start) || a.Length == 0 || b.Length == 0
}

func verifMkRegions(n int, tag string) []GuestPhysicalRegion {
	rs := make([]GuestPhysicalRegion, n)
	for i := 0; i < n; i++ {
		rs[i].Start = abi.EFIPhysicalAddress(verifNondetU64(tag + "s"))
		rs[i].Length = verifNondetU64(tag + "l")
		verifAssume(uint64(rs[i].Start)+rs[i].Length >= uint64(rs[i].Start), "regions do not wrap the 64-bit address space")
	}
	for i := 0; i < n; i++ {
		for j := i + 1; j < n; j++ {
			verifAssume(verifDisjoint(rs[i], rs[j]), "regions of one list are pairwise disjoint")
		}
	}
	return rs
}

func verifAny(x uint64, rs []GuestPhysicalRegion) bool {
	r := false
	for i := 0; i < len(rs); i++ {
		r = r || verifIn(x, rs[i])
	}
	return r
}

func verifUnaccepted(np, nr int) {
	// verifSolver("cvc5int")
	priv := verifMkRegions(np, "p")
	ram := verifMkRegions(nr, "r")
	out := unacceptedMemRanges(priv, ram)
	x := verifNondetU64("x")
	inRam, inPriv, inOut := verifAny(x, ram), verifAny(x, priv), verifAny(x, out)
	verifObserve("nout", len(out))
	verifAssert(inOut == (inRam && !inPriv), "unaccepted = ram minus private (membership of arbitrary address)")
	for i := 0; i < len(out); i++ {
		verifAssert(out[i].Length != 0, "unaccepted ranges are non-empty")
		if i+1 < len(out) {
			verifAssert(uint64(out[i].Start)+out[i].Length <= uint64(out[i+1].Start), "unaccepted ranges ascending and disjoint")
		}
	}
	verifReach("end")
}

func VerifC05Unaccepted11() { verifUnaccepted(1, 1) }
func VerifC05Unaccepted12() { verifUnaccepted(1, 2) }
func VerifC05Unaccepted21() { verifUnaccepted(2, 1) }
func VerifC05Unaccepted22() { verifUnaccepted(2, 2) }
func VerifC05Unaccepted23() { verifUnaccepted(2, 3) }
func VerifC05Unaccepted33() { verifUnaccepted(3, 3) }
