package parsepath

// C19, scanner obligations: (*scanner).scan on an arbitrary byte string. Every byte is symbolic;
// the length is concrete per obligation (0..N).
//
// Library models (part of the claim):
//   - the eight fixed regular expressions are matched by the hand-written matchers below, selected
//     by the identity of the compiled expression ((*regexp.Regexp).FindIndex is cut). Native
//     replays run the real regexp package on the same bytes and must produce the same tokens.
//   - strconv.ParseInt is a contract stub: any value of the requested bit size, or an error.
//     (The numeric value of an escape sequence is therefore outside the claim.)
//   - strconv.QuoteRune returns an opaque text.
//   - utf8.DecodeRune is modelled by verifDecodeRune, written from the well-formed byte sequence
//     table of the Unicode standard (comparisons instead of the library's 256-entry lookup
//     tables, which cost ~10x in solver time); native replays run the library decoder.

import (
	"errors"
	"regexp"
)

//verif:cut (*regexp.Regexp).FindIndex verifFindIndex
//verif:cut strconv.QuoteRune verifQuoteRune
//verif:cut unicode/utf8.DecodeRune verifDecodeRune

func verifQuoteRune(r rune) string { return "'?'" }

var errVerifSyntax = errors.New("strconv: invalid")

func verifParseInt(s string, base int, bitSize int) (int64, error) {
	if verifNondetBool("parseint_fails") {
		return 0, errVerifSyntax
	}
	v := int64(verifNondetU64("parseint_value"))
	if bitSize == 32 {
		v = int64(int32(v))
	}
	return v, nil
}

func verifDecodeRune(p []byte) (rune, int) {
	const bad = rune(0xFFFD)
	n := len(p)
	if n < 1 {
		return bad, 0
	}
	p0 := p[0]
	if p0 < 0x80 {
		return rune(p0), 1
	}
	if p0 < 0xC2 || p0 > 0xF4 {
		return bad, 1
	}
	cont := func(c byte) bool { return c >= 0x80 && c <= 0xBF }
	if p0 < 0xE0 {
		if n < 2 || !cont(p[1]) {
			return bad, 1
		}
		return rune(p0&0x1F)<<6 | rune(p[1]&0x3F), 2
	}
	lo, hi := byte(0x80), byte(0xBF)
	switch p0 {
	case 0xE0:
		lo = 0xA0
	case 0xED:
		hi = 0x9F
	case 0xF0:
		lo = 0x90
	case 0xF4:
		hi = 0x8F
	}
	if n < 2 || p[1] < lo || p[1] > hi {
		return bad, 1
	}
	if p0 < 0xF0 {
		if n < 3 || !cont(p[2]) {
			return bad, 1
		}
		return rune(p0&0x0F)<<12 | rune(p[1]&0x3F)<<6 | rune(p[2]&0x3F), 3
	}
	if n < 4 || !cont(p[2]) || !cont(p[3]) {
		return bad, 1
	}
	return rune(p0&0x07)<<18 | rune(p[1]&0x3F)<<12 | rune(p[2]&0x3F)<<6 | rune(p[3]&0x3F), 4
}

func vfDigit(c byte) bool { return c >= '0' && c <= '9' }
func vfOct(c byte) bool   { return c >= '0' && c <= '7' }
func vfHex(c byte) bool {
	return (c >= '0' && c <= '9') || (c >= 'a' && c <= 'f') || (c >= 'A' && c <= 'F')
}
func vfLetter(c byte) bool {
	return (c >= 'a' && c <= 'z') || (c >= 'A' && c <= 'Z') || c == '_'
}

// run returns the number of leading bytes of b (from i) in the class, at most max (0 = no limit).
func vfRun(b []byte, i int, class func(byte) bool, max int) int {
	n := 0
	for i+n < len(b) && (max == 0 || n < max) && class(b[i+n]) {
		n++
	}
	return n
}

func vfSign(b []byte) int {
	if len(b) > 0 && b[0] == '-' {
		return 1
	}
	return 0
}

func verifMatch(re *regexp.Regexp, b []byte) int {
	switch re {
	case identRe: // ^[a-zA-Z_][a-zA-Z_0-9]*
		if len(b) == 0 || !vfLetter(b[0]) {
			return -1
		}
		return 1 + vfRun(b, 1, func(c byte) bool { return vfLetter(c) || vfDigit(c) }, 0)
	case decimalRe: // ^-?(0|[1-9][0-9]*)
		i := vfSign(b)
		if i >= len(b) || !vfDigit(b[i]) {
			return -1
		}
		if b[i] == '0' {
			return i + 1
		}
		return i + 1 + vfRun(b, i+1, vfDigit, 0)
	case octalRe: // ^-?(0[0-7]+)
		i := vfSign(b)
		if i >= len(b) || b[i] != '0' {
			return -1
		}
		n := vfRun(b, i+1, vfOct, 0)
		if n == 0 {
			return -1
		}
		return i + 1 + n
	case hexRe: // ^-?(0[xX][0-9a-fA-F]+)
		i := vfSign(b)
		if i+1 >= len(b) || b[i] != '0' || (b[i+1] != 'x' && b[i+1] != 'X') {
			return -1
		}
		n := vfRun(b, i+2, vfHex, 0)
		if n == 0 {
			return -1
		}
		return i + 2 + n
	case oct13Re: // ^[0-7]{1,3}
		n := vfRun(b, 0, vfOct, 3)
		if n == 0 {
			return -1
		}
		return n
	case hex12Re: // ^[0-9A-Fa-f]{1,2}
		n := vfRun(b, 0, vfHex, 2)
		if n == 0 {
			return -1
		}
		return n
	case hex4Re: // ^[0-9A-Fa-f]{4}
		if vfRun(b, 0, vfHex, 4) != 4 {
			return -1
		}
		return 4
	case hex8Re: // ^[0-9A-Fa-f]{8}
		if vfRun(b, 0, vfHex, 8) != 8 {
			return -1
		}
		return 8
	}
	panic("harness: unknown regular expression")
}

func verifFindIndex(re *regexp.Regexp, b []byte) []int {
	n := verifMatch(re, b)
	if n < 0 {
		return nil
	}
	return []int{0, n}
}

// verifCheckToken: what one call of scan must satisfy, given the position it started from.
func verifCheckToken(s *scanner, buf []byte, before int, tok *token) {
	n := len(buf)
	verifAssert(tok != nil, "scan returns a token")
	verifAssert(s.pos >= 0 && s.pos <= n, "scanner position stays within the input")
	verifAssert(tok.Pos >= 0 && tok.Pos <= n, "token position is within the input")
	verifAssert(tok.Kind >= ident && tok.Kind <= eof, "token kind is one of the declared kinds")
	verifObserve("kind", int(tok.Kind))
	verifObserve("pos", tok.Pos)
	verifObserve("next", s.pos)
	if tok.Kind == eof {
		verifAssert(before >= n, "eof only at the end of the input")
		verifAssert(s.pos == before, "eof consumes nothing")
		return
	}
	verifAssert(before < n, "a token other than eof needs input")
	verifAssert(s.pos > before, "every token consumes input")
	switch tok.Kind {
	case ident, intlit:
		verifAssert(tok.Pos == before, "literal starts where the scan started")
		verifAssert(tok.Text == string(buf[before:s.pos]), "literal text is the bytes consumed")
		if tok.Kind == ident {
			verifAssert(vfLetter(buf[before]), "identifier starts with a letter or underscore")
			verifAssert(s.pos == n || !(vfLetter(buf[s.pos]) || vfDigit(buf[s.pos])), "identifier is maximal")
		}
	case dot, oparen, cparen, obrack, cbrack:
		verifAssert(s.pos == before+1 && tok.Pos == before, "punctuation is one byte")
		want := map[tokenKind]byte{dot: '.', oparen: '(', cparen: ')', obrack: '[', cbrack: ']'}[tok.Kind]
		verifAssert(buf[before] == want, "punctuation kind matches its byte")
	case strlit:
		verifAssert(buf[before] == '"' || buf[before] == '\'', "string literal starts with a quote")
		verifAssert(buf[s.pos-1] == buf[before] && s.pos >= before+2, "string literal ends with the same quote")
		verifAssert(tok.Pos == before, "string literal position is its opening quote")
	}
}

// VerifC19ScanStep: one call of scan from an arbitrary position of an arbitrary n-byte input.
// Progress and confinement of every single step give, by induction on the position, termination
// within n+1 calls and no panic for the whole input.
func VerifC19ScanStep(n int) {
	verifUnwind(4*n + 8)
	buf := verifNondetBytes("path", n)
	start := verifPick("start", n+1)
	s := &scanner{buf: buf, pos: start}
	tok := s.scan()
	verifCheckToken(s, buf, start, tok)
	verifReach("end")
}

// VerifC19Scan: the whole token sequence of an arbitrary n-byte input.
func VerifC19Scan(n int) {
	verifUnwind(4*n + 8)
	buf := verifNondetBytes("path", n)
	s := &scanner{buf: buf}
	calls := 0
	for {
		before := s.pos
		tok := s.scan()
		calls++
		verifCheckToken(s, buf, before, tok)
		if tok.Kind == eof {
			break
		}
		verifAssert(calls <= n, "at most one token per input byte")
	}
	verifReach("end")
}

func verifPick(name string, n int) int {
	v := int(verifNondetU8(name))
	verifAssume(v < n, "choice within its range")
	return verifConcretize(v, 0, n-1)
}

func VerifC19ScanStep4() { VerifC19ScanStep(4) }
func VerifC19ScanStep5() { VerifC19ScanStep(5) }
func VerifC19ScanStep6() { VerifC19ScanStep(6) }
func VerifC19ScanStep7() { VerifC19ScanStep(7) }
func VerifC19ScanStep8() { VerifC19ScanStep(8) }
func VerifC19Scan0()     { VerifC19Scan(0) }
func VerifC19Scan1()     { VerifC19Scan(1) }
func VerifC19Scan2()     { VerifC19Scan(2) }
func VerifC19Scan3()     { VerifC19Scan(3) }
func VerifC19Scan4()     { VerifC19Scan(4) }
func VerifC19Scan5()     { VerifC19Scan(5) }
func VerifC19Scan6()     { VerifC19Scan(6) }
func VerifC19Scan8()     { VerifC19Scan(8) }
