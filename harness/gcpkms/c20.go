package gcpkms

import (
	"context"
	"crypto"
	"crypto/rsa"
	"errors"
	"hash/crc32"
	"strconv"

	"cloud.google.com/go/kms/apiv1/kmspb"
	styp "github.com/google/gce-tcb-verifier/sign/types"
	"google.golang.org/grpc"
	"google.golang.org/protobuf/types/known/wrapperspb"
)

// C20: Cloud KMS signing and key lifecycle over a stub service that may answer with any
// response (signing) and may page its listings in any legal way (page no longer than requested,
// next-page token empty exactly on the last page).

var verifErrSvc = errors.New("verif: service error")

type verifKMS struct {
	kmspb.KeyManagementServiceClient // unimplemented methods stay nil

	// signing
	signReq  *kmspb.AsymmetricSignRequest
	signResp *kmspb.AsymmetricSignResponse
	signErr  bool

	// versions of one key, and paging
	versions      []*kmspb.CryptoKeyVersion
	destroyed     []string
	listCalls     int
	maxCalls      int
	shortPage     bool // the service may legally return fewer entries than requested on a non-final page
	polls         int
	createdName   string
	createdState  kmspb.CryptoKeyVersion_CryptoKeyVersionState
	lastPollName  string
	lastPollState kmspb.CryptoKeyVersion_CryptoKeyVersionState
	keys          []*kmspb.CryptoKey
	keyCalls      int
}

func (k *verifKMS) AsymmetricSign(ctx context.Context, in *kmspb.AsymmetricSignRequest, opts ...grpc.CallOption) (*kmspb.AsymmetricSignResponse, error) {
	k.signReq = in
	if k.signErr {
		return nil, verifErrSvc
	}
	return k.signResp, nil
}

func (k *verifKMS) ListCryptoKeyVersions(ctx context.Context, in *kmspb.ListCryptoKeyVersionsRequest, opts ...grpc.CallOption) (*kmspb.ListCryptoKeyVersionsResponse, error) {
	k.listCalls++
	if k.listCalls > k.maxCalls {
		verifAssert(false, "key-version listing terminates within the number of pages the service needs (plus one)")
		verifAssume(false, "stop a non-terminating listing loop")
	}
	start := 0
	if in.PageToken != "" {
		start, _ = strconv.Atoi(in.PageToken)
	}
	n := len(k.versions) - start
	if n > int(in.PageSize) {
		n = int(in.PageSize)
	}
	if k.shortPage && n > 1 && verifNondetBool("short_page") {
		n = n / 2
	}
	n = verifConcretize(n, 0, 256)
	resp := &kmspb.ListCryptoKeyVersionsResponse{CryptoKeyVersions: k.versions[start : start+n], TotalSize: int32(len(k.versions))}
	if start+n < len(k.versions) {
		resp.NextPageToken = strconv.Itoa(start + n)
	}
	return resp, nil
}

func (k *verifKMS) ListCryptoKeys(ctx context.Context, in *kmspb.ListCryptoKeysRequest, opts ...grpc.CallOption) (*kmspb.ListCryptoKeysResponse, error) {
	k.keyCalls++
	if k.keyCalls > 3 {
		verifAssert(false, "key listing terminates")
		verifAssume(false, "stop a non-terminating listing loop")
	}
	return &kmspb.ListCryptoKeysResponse{CryptoKeys: k.keys, TotalSize: int32(len(k.keys))}, nil
}

func (k *verifKMS) DestroyCryptoKeyVersion(ctx context.Context, in *kmspb.DestroyCryptoKeyVersionRequest, opts ...grpc.CallOption) (*kmspb.CryptoKeyVersion, error) {
	k.destroyed = append(k.destroyed, in.Name)
	return &kmspb.CryptoKeyVersion{Name: in.Name, State: kmspb.CryptoKeyVersion_DESTROY_SCHEDULED}, nil
}

func (k *verifKMS) GetCryptoKeyVersion(ctx context.Context, in *kmspb.GetCryptoKeyVersionRequest, opts ...grpc.CallOption) (*kmspb.CryptoKeyVersion, error) {
	k.polls++
	if verifNondetBool("poll_error") {
		return nil, verifErrSvc
	}
	st := kmspb.CryptoKeyVersion_CryptoKeyVersionState(verifNondetU8("poll_state") % 6)
	k.lastPollName, k.lastPollState = in.Name, st
	return &kmspb.CryptoKeyVersion{Name: in.Name, State: st}, nil
}

func (k *verifKMS) CreateCryptoKeyVersion(ctx context.Context, in *kmspb.CreateCryptoKeyVersionRequest, opts ...grpc.CallOption) (*kmspb.CryptoKeyVersion, error) {
	if verifNondetBool("create_error") {
		return nil, verifErrSvc
	}
	// the service may report the new version in any state (normally still generating)
	st := kmspb.CryptoKeyVersion_CryptoKeyVersionState(verifNondetU8("create_state") % 6)
	k.createdName, k.createdState = in.Parent+"/cryptoKeyVersions/new", st
	return &kmspb.CryptoKeyVersion{Name: k.createdName, State: st}, nil
}

func verifCRC(b []byte) int64 { return int64(crc32.Checksum(b, crc32cTable)) }

// (a) Sign returns a signature only for PSS/SHA-256/salt=hash requests, only if the response
// checksum matches and both request checksums were confirmed.
func VerifC20Sign() {
	svc := &verifKMS{signErr: verifNondetBool("service_error")}
	sig := verifNondetBytes("sig", 2)
	resp := &kmspb.AsymmetricSignResponse{Signature: sig, VerifiedDigestCrc32C: verifNondetBool("verified_digest"), VerifiedDataCrc32C: verifNondetBool("verified_data")}
	if verifNondetBool("has_sig_crc") {
		// either the checksum of the signature or any other value (built from the checksum function
		// itself so that a native replay, where CRC-32C is the real one, follows the same path)
		c := verifCRC(sig)
		if !verifNondetBool("sig_crc_matches") {
			c = int64(verifNondetU64("sig_crc"))
			verifAssume(c != verifCRC(sig), "a checksum that does not match is some other value")
		}
		resp.SignatureCrc32C = wrapperspb.Int64(c)
	}
	svc.signResp = resp
	s := &Signer{Manager: &Manager{KeyClient: svc}}
	digest := verifNondetBytes("digest", 32)
	var opts crypto.SignerOpts
	pss := &rsa.PSSOptions{SaltLength: verifNondetInt("salt"), Hash: crypto.Hash(verifNondetU8("hash"))}
	if verifNondetBool("pss_opts") {
		opts = pss
	} else {
		opts = crypto.SHA256
	}
	got, err := s.Sign(context.Background(), "kv", styp.Digest{SHA256: digest}, opts)
	verifObserve("ok", err == nil)
	if err == nil {
		verifReach("signed")
		_, isPSS := opts.(*rsa.PSSOptions)
		verifAssert(isPSS && pss.SaltLength == rsa.PSSSaltLengthEqualsHash && pss.Hash == crypto.SHA256, "a signature is returned only for RSA-PSS / SHA-256 / salt=hash requests")
		verifAssert(!svc.signErr, "a signature is returned only if the service call succeeded")
		verifAssert(verifCRC(sig) == resp.GetSignatureCrc32C().GetValue(), "a signature is returned only if the response checksum (0 when absent) matches the signature")
		if resp.SignatureCrc32C != nil && resp.SignatureCrc32C.Value == verifCRC(sig) {
			// a site of its own: its counterexamples do not depend on a collision of the uninterpreted
			// checksum (an absent response checksum that happens to equal the signature's) and replay natively
			verifAssert(resp.VerifiedDigestCrc32C, "a signature is returned only if the service confirmed the digest checksum (response checksum present and matching)")
			verifAssert(resp.VerifiedDataCrc32C, "a signature is returned only if the service confirmed the data checksum (response checksum present and matching)")
		}
		verifAssert(resp.VerifiedDigestCrc32C && resp.VerifiedDataCrc32C, "a signature is returned only if the service confirmed both request checksums")
		verifAssert(verifSameSlice(got, sig), "the signature returned is the response's")
		r := svc.signReq
		verifAssert(r != nil && r.Name == "kv" && r.DigestCrc32C != nil && r.DigestCrc32C.Value == verifCRC(digest) && r.DataCrc32C != nil && r.DataCrc32C.Value == verifCRC(nil), "the request carries the checksums of the digest and of the empty data")
		d, ok := r.Digest.Digest.(*kmspb.Digest_Sha256)
		verifAssert(ok && verifSameSlice(d.Sha256, digest), "the request carries the SHA-256 digest it was given")
	} else {
		verifReach("refused")
	}
	verifReach("end")
}

func verifVersions(n int, symbolicStates bool) []*kmspb.CryptoKeyVersion {
	vs := make([]*kmspb.CryptoKeyVersion, n)
	for i := range vs {
		st := kmspb.CryptoKeyVersion_ENABLED
		if symbolicStates {
			st = kmspb.CryptoKeyVersion_CryptoKeyVersionState(verifNondetU8("state") % 12)
		} else if i%3 == 1 {
			st = kmspb.CryptoKeyVersion_DISABLED
		} else if i%3 == 2 {
			st = kmspb.CryptoKeyVersion_DESTROYED
		}
		vs[i] = &kmspb.CryptoKeyVersion{Name: "v" + strconv.Itoa(i), State: st}
	}
	return vs
}

func verifPagesNeeded(n, page int) int {
	if n == 0 {
		return 1
	}
	return (n + page - 1) / page
}

// (b) wipeout of one key with n versions: terminates and destroys every enabled or disabled
// version exactly once, however the listing is paged.
func verifC20Wipeout(n int, symbolicStates, shortPages bool) {
	svc := &verifKMS{versions: verifVersions(n, symbolicStates), shortPage: shortPages}
	svc.maxCalls = verifPagesNeeded(n, keyPageSize) + 1
	if shortPages {
		svc.maxCalls = n + 2
	}
	m := &Manager{Project: "p", Location: "l", KeyRingID: "r", KeyClient: svc}
	err := m.wipeoutKey(context.Background(), "key")
	verifObserve("calls", svc.listCalls)
	for _, v := range svc.versions {
		want := v.State == kmspb.CryptoKeyVersion_ENABLED || v.State == kmspb.CryptoKeyVersion_DISABLED
		cnt := 0
		for _, d := range svc.destroyed {
			if d == v.Name {
				cnt++
			}
		}
		if want {
			verifAssert(cnt == 1, "every enabled or disabled version is destroyed exactly once")
		} else {
			verifAssert(cnt == 0, "versions in other states are left alone")
		}
	}
	_ = err
	verifReach("end")
}

func VerifC20Wipeout0()      { verifC20Wipeout(0, false, false) }
func VerifC20Wipeout1()      { verifC20Wipeout(1, false, false) }
func VerifC20Wipeout99()     { verifC20Wipeout(99, false, false) }
func VerifC20Wipeout100()    { verifC20Wipeout(100, false, false) }
func VerifC20Wipeout101()    { verifC20Wipeout(101, false, false) }
func VerifC20Wipeout200()    { verifC20Wipeout(200, false, false) }
func VerifC20WipeoutStates() { verifC20Wipeout(3, true, false) }
func VerifC20WipeoutShort()  { verifC20Wipeout(3, false, true) }

// bootstrap selection: an enabled version if one exists, else a pending one, else "no versions".
func verifC20Select(n int, symbolicStates, shortPages bool) {
	svc := &verifKMS{versions: verifVersions(n, symbolicStates), shortPage: shortPages}
	svc.maxCalls = verifPagesNeeded(n, keyPageSize) + 1
	if shortPages {
		svc.maxCalls = n + 2
	}
	m := &Manager{KeyClient: svc}
	v, err := m.getEnabledOrPendingKeyVersion(context.Background(), "key")
	anyEnabled, anyPending := false, false
	for _, x := range svc.versions {
		anyEnabled = anyEnabled || x.State == kmspb.CryptoKeyVersion_ENABLED
		anyPending = anyPending || x.State == kmspb.CryptoKeyVersion_PENDING_GENERATION
	}
	if n == 0 {
		verifAssert(err != nil, "a key without versions is an error")
	} else if anyEnabled {
		verifAssert(err == nil && v != nil && v.State == kmspb.CryptoKeyVersion_ENABLED, "an enabled version is selected when one exists")
	} else if anyPending {
		verifAssert(err == nil && v != nil && v.State == kmspb.CryptoKeyVersion_PENDING_GENERATION, "otherwise a pending version is selected")
	} else {
		verifAssert(errors.Is(err, ErrNoKeyVersions), "otherwise the caller is told there is no usable version")
	}
	verifReach("end")
}

func VerifC20Select0()      { verifC20Select(0, false, false) }
func VerifC20Select100()    { verifC20Select(100, false, false) }
func VerifC20SelectStates() { verifC20Select(3, true, false) }
func VerifC20SelectShort()  { verifC20Select(3, true, true) }
func VerifC20Select101Last() {
	// only the last of 101 versions is enabled: it sits on the second page
	svc := &verifKMS{versions: verifVersions(101, false)}
	for i, v := range svc.versions {
		v.State = kmspb.CryptoKeyVersion_DESTROYED
		if i == 100 {
			v.State = kmspb.CryptoKeyVersion_ENABLED
		}
	}
	svc.maxCalls = 3
	m := &Manager{KeyClient: svc}
	v, err := m.getEnabledOrPendingKeyVersion(context.Background(), "key")
	verifAssert(err == nil && v != nil && v.Name == "v100", "an enabled version beyond the first page is found")
	verifReach("end")
}

// (c) polling: only an ENABLED name or an error is returned.
func VerifC20Poll() {
	verifUnwindCut(4)
	svc := &verifKMS{}
	m := &Manager{KeyClient: svc}
	name, err := m.waitForKeyVersionGen(context.Background(), "kv")
	if err == nil {
		verifReach("enabled")
		verifAssert(name == "kv", "polling returns the polled version's name")
		verifAssert(svc.polls > 0 && svc.lastPollName == "kv" && svc.lastPollState == kmspb.CryptoKeyVersion_ENABLED, "polling returns only once the service reported the version enabled")
	}
	verifReach("end")
}

// waitForKeyGen (bootstrap): the name it returns is a version the service listed as enabled, or one
// it polled until the service reported it enabled; never a version that is still being generated.
func VerifC20WaitKeyGen() {
	verifUnwindCut(4)
	svc := &verifKMS{versions: verifVersions(3, true)}
	svc.maxCalls = 3
	m := &Manager{KeyClient: svc}
	name, err := m.waitForKeyGen(context.Background(), "key")
	if err == nil {
		verifReach("returned")
		listedEnabled := false
		for _, v := range svc.versions {
			if v.Name == name && v.State == kmspb.CryptoKeyVersion_ENABLED {
				listedEnabled = true
			}
		}
		polledEnabled := svc.polls > 0 && svc.lastPollName == name && svc.lastPollState == kmspb.CryptoKeyVersion_ENABLED
		createdEnabled := svc.createdName == name && svc.createdState == kmspb.CryptoKeyVersion_ENABLED
		verifAssert(listedEnabled || polledEnabled || createdEnabled, "bootstrap returns a key version only once it is enabled")
	}
	verifReach("end")
}

func VerifC20Rotate() {
	verifUnwindCut(3)
	svc := &verifKMS{}
	m := &Manager{Project: "p", Location: "l", KeyRingID: "r", KeyClient: svc}
	ctx := NewSigningKeyContext(context.Background(), &SigningKeyContext{SigningKeyID: "sk"})
	name, err := m.CreateNewSigningKeyVersion(ctx)
	if err == nil {
		verifReach("enabled")
		polledEnabled := svc.polls > 0 && svc.lastPollName == name && svc.lastPollState == kmspb.CryptoKeyVersion_ENABLED
		createdEnabled := svc.createdName == name && svc.createdState == kmspb.CryptoKeyVersion_ENABLED
		verifAssert(name != "" && (polledEnabled || createdEnabled), "rotation returns a version name only once it is enabled")
	}
	verifReach("end")
}
