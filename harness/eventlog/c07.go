package eventlog

import (
	"bytes"
)

// C07 (event-log decoders): every decoder returns a value or an error for every byte string of
// length up to the bound, without panicking, without looping more than the input allows and
// without requesting memory out of proportion to the input (ghost allocation counter).

func verifInput(max int) []byte {
	n := verifNondetInt("len")
	verifAssume(n >= 0 && n <= max, "input length within the stated bound")
	return verifNondetArr("input", n)
}

func verifLimits(max int) {
	verifAllocBudget(uint64(64*max + 64<<10))
	verifUnwindCut(6)
	verifTripBound(max + 16)
}

func verifC07Log(max int) {
	verifLimits(max)
	data := verifInput(max)
	var cel CryptoAgileLog
	err := cel.Unmarshal(bytes.NewBuffer(data))
	verifObserve("ok", err == nil)
	if err == nil {
		verifReach("accepted")
	}
	verifReach("end")
}

func VerifC07Log44() { verifC07Log(44) }
func VerifC07Log64() { verifC07Log(64) }

func verifC07Event2(max int) {
	verifLimits(max)
	data := verifInput(max)
	var e TCGPCREvent2
	err := e.Unmarshal(bytes.NewBuffer(data))
	verifObserve("ok", err == nil)
	if err == nil {
		verifReach("accepted")
	}
	verifReach("end")
}

func VerifC07Event2x48() { verifC07Event2(48) }

func verifC07SP800155(max int) {
	verifLimits(max)
	data := verifInput(max)
	var e SP800155Event3
	err := e.UnmarshalFromBytes(data)
	verifObserve("ok", err == nil)
	if err == nil {
		verifReach("accepted")
	}
	verifReach("end")
}

func VerifC07SP800155x24() { verifC07SP800155(24) }
func VerifC07SP800155x40() { verifC07SP800155(40) }

func verifC07Small(max int) {
	verifLimits(max)
	data := verifInput(max)
	switch verifConcretize(int(verifNondetU8("which")%5), 0, 4) {
	case 0:
		var s ByteSizedCStr
		_ = s.Unmarshal(bytes.NewBuffer(data))
	case 1:
		var a Uint32SizedArray
		_ = a.Unmarshal(bytes.NewBuffer(data))
	case 2:
		var d TaggedDigest
		_ = d.Unmarshal(bytes.NewBuffer(data))
	case 3:
		var g EfiGUID
		_ = g.Unmarshal(bytes.NewBuffer(data))
	default:
		var d TCGEventData
		_ = d.Unmarshal(bytes.NewBuffer(data))
	}
	verifReach("end")
}

func VerifC07Small24() { verifC07Small(24) }
