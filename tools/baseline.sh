#!/bin/bash
# Runs the repository's own test suite (both modules) with the verif guard off.
# Usage: tools/baseline.sh [repo-dir]
R=${1:-/repo}
export GOPROXY=off GOSUMDB=off GOTOOLCHAIN=local GOFLAGS=
rc=0
(cd $R && go test -vet=off -count=1 -timeout 25m ./... 2>&1) | grep -v "no test files" | grep -E "^(--- FAIL|FAIL|panic)" || true
(cd $R/gcetcbendorsement && go test -vet=off -count=1 -timeout 25m ./... 2>&1) | grep -v "no test files" | grep -E "^(--- FAIL|FAIL|panic)" || true
echo "baseline done"
