package main

import (
	"bytes"
	"encoding/json"
	"fmt"
	"go/ast"
	"go/parser"
	"go/printer"
	"go/token"
	"os"
	"path/filepath"
	"sort"
	"strings"

	"golang.org/x/tools/go/ssa"
	"golang.org/x/tools/go/ssa/ssautil"
)

// Cut rewriting for native replays. Under the engine a //verif:cut directive makes every call of
// a callee run a harness function instead. A native `go test` run has no such mechanism, so for a
// replay the source file that declares each cut callee is copied with
//
//	var ZZVerifCut_<name> func(<receiver>, <params>) <results>
//	func <callee>(...) ... { if ZZVerifCut_<name> != nil { return ZZVerifCut_<name>(...) } ... }
//
// and the copy is handed to `go test -overlay` in place of the original (this works for the
// standard library and module-cache files as well as repository files). A generated init function
// in the package under test assigns the harness functions to the hook variables.

type cutAssign struct {
	PkgPath string `json:"pkg"`     // import path of the package that declares the callee
	Var     string `json:"var"`     // hook variable
	Harness string `json:"harness"` // harness function assigned to it
	Callee  string `json:"callee"`
}

type cutManifest struct {
	HarnessPkg string            `json:"harness_pkg"`
	Replace    map[string]string `json:"replace"`
	Assign     []cutAssign       `json:"assign"`
	Skipped    []string          `json:"skipped"`
}

type textEdit struct {
	off  int
	del  int
	text string
}

func cutgen(prog *ssa.Program, hp *ssa.Package, cutSpecs [][2]string, outDir string) {
	man := cutManifest{HarnessPkg: hp.Pkg.Path(), Replace: map[string]string{}}
	byName := map[string]*ssa.Function{}
	for fn := range ssautil.AllFunctions(prog) {
		if fn.Synthetic == "" || fn.Syntax() != nil {
			byName[fn.String()] = fn
		}
	}
	type fileCuts struct {
		decls []*ast.FuncDecl
		specs [][2]string
		pkg   string
	}
	files := map[string]*fileCuts{}
	for _, c := range cutSpecs {
		fn := byName[c[0]]
		if fn == nil || fn.Syntax() == nil {
			man.Skipped = append(man.Skipped, c[0]+": no source")
			continue
		}
		decl, ok := fn.Syntax().(*ast.FuncDecl)
		if !ok || decl.Body == nil {
			man.Skipped = append(man.Skipped, c[0]+": not a declared function with a body")
			continue
		}
		if decl.Type.TypeParams != nil && len(decl.Type.TypeParams.List) > 0 {
			man.Skipped = append(man.Skipped, c[0]+": generic")
			continue
		}
		if fn.Pkg == nil {
			man.Skipped = append(man.Skipped, c[0]+": no package")
			continue
		}
		if strings.Contains(fn.Pkg.Pkg.Path(), "/internal/") || strings.HasPrefix(fn.Pkg.Pkg.Path(), "internal/") {
			man.Skipped = append(man.Skipped, c[0]+": internal package")
			continue
		}
		path := prog.Fset.Position(decl.Pos()).Filename
		fc := files[path]
		if fc == nil {
			fc = &fileCuts{pkg: fn.Pkg.Pkg.Path()}
			files[path] = fc
		}
		fc.decls = append(fc.decls, decl)
		fc.specs = append(fc.specs, c)
	}
	paths := make([]string, 0, len(files))
	for p := range files {
		paths = append(paths, p)
	}
	sort.Strings(paths)
	for i, path := range paths {
		fc := files[path]
		src, err := os.ReadFile(path)
		if err != nil {
			man.Skipped = append(man.Skipped, path+": "+err.Error())
			continue
		}
		fset := token.NewFileSet()
		af, err := parser.ParseFile(fset, path, src, parser.ParseComments)
		if err != nil {
			man.Skipped = append(man.Skipped, path+": "+err.Error())
			continue
		}
		var edits []textEdit
		var tail bytes.Buffer
		for k, orig := range fc.decls {
			decl := findDecl(af, orig)
			if decl == nil {
				man.Skipped = append(man.Skipped, fc.specs[k][0]+": declaration not found on re-parse")
				continue
			}
			hook := "ZZVerifCut_" + hookName(decl)
			off := func(p token.Pos) int { return fset.Position(p).Offset }
			typ := func(e ast.Expr) string {
				var b bytes.Buffer
				printer.Fprint(&b, fset, e)
				return b.String()
			}
			var ptypes, args []string
			n := 0
			name := func(f *ast.Field, idx int) string {
				// returns the usable name of the idx-th identifier of the field, renaming blanks
				if len(f.Names) == 0 {
					nm := fmt.Sprintf("zzp%d", n)
					edits = append(edits, textEdit{off: off(f.Type.Pos()), text: nm + " "})
					return nm
				}
				id := f.Names[idx]
				if id.Name == "_" {
					nm := fmt.Sprintf("zzp%d", n)
					edits = append(edits, textEdit{off: off(id.Pos()), del: 1, text: nm})
					return nm
				}
				return id.Name
			}
			if decl.Recv != nil && len(decl.Recv.List) == 1 {
				f := decl.Recv.List[0]
				nm := name(f, 0)
				n++
				ptypes = append(ptypes, typ(f.Type))
				args = append(args, nm)
			}
			for _, f := range decl.Type.Params.List {
				cnt := len(f.Names)
				if cnt == 0 {
					cnt = 1
				}
				for idx := 0; idx < cnt; idx++ {
					nm := name(f, idx)
					n++
					t := typ(f.Type)
					ptypes = append(ptypes, t)
					if strings.HasPrefix(t, "...") {
						nm += "..."
					}
					args = append(args, nm)
				}
			}
			res := ""
			if decl.Type.Results != nil && len(decl.Type.Results.List) > 0 {
				var rts []string
				for _, f := range decl.Type.Results.List {
					cnt := len(f.Names)
					if cnt == 0 {
						cnt = 1
					}
					for idx := 0; idx < cnt; idx++ {
						rts = append(rts, typ(f.Type))
					}
				}
				res = " (" + strings.Join(rts, ", ") + ")"
			}
			fmt.Fprintf(&tail, "\n// %s: set by a verification replay to stand in for the function.\nvar %s func(%s)%s\n", hook, hook, strings.Join(ptypes, ", "), res)
			call := fmt.Sprintf("%s(%s)", hook, strings.Join(args, ", "))
			pro := "\n\tif " + hook + " != nil {\n\t\t"
			if res != "" {
				pro += "return " + call
			} else {
				pro += call + "\n\t\treturn"
			}
			pro += "\n\t}\n"
			edits = append(edits, textEdit{off: off(decl.Body.Lbrace) + 1, text: pro})
			man.Assign = append(man.Assign, cutAssign{PkgPath: fc.pkg, Var: hook, Harness: fc.specs[k][1], Callee: fc.specs[k][0]})
		}
		sort.Slice(edits, func(a, b int) bool { return edits[a].off > edits[b].off })
		out := append([]byte(nil), src...)
		for _, e := range edits {
			out = append(out[:e.off], append([]byte(e.text), out[e.off+e.del:]...)...)
		}
		out = append(out, tail.Bytes()...)
		dst := filepath.Join(outDir, fmt.Sprintf("cut%d_%s", i, filepath.Base(path)))
		if err := os.WriteFile(dst, out, 0o644); err != nil {
			fatal("cutgen: %v", err)
		}
		man.Replace[path] = dst
	}
	b, _ := json.MarshalIndent(man, "", " ")
	if err := os.WriteFile(filepath.Join(outDir, "cuts.json"), b, 0o644); err != nil {
		fatal("cutgen: %v", err)
	}
}

func recvTypeName(decl *ast.FuncDecl) string {
	if decl.Recv == nil || len(decl.Recv.List) != 1 {
		return ""
	}
	t := decl.Recv.List[0].Type
	if s, ok := t.(*ast.StarExpr); ok {
		t = s.X
	}
	if id, ok := t.(*ast.Ident); ok {
		return id.Name
	}
	return "X"
}

func hookName(decl *ast.FuncDecl) string {
	if r := recvTypeName(decl); r != "" {
		return r + "_" + decl.Name.Name
	}
	return decl.Name.Name
}

func findDecl(af *ast.File, orig *ast.FuncDecl) *ast.FuncDecl {
	for _, d := range af.Decls {
		if fd, ok := d.(*ast.FuncDecl); ok && fd.Name.Name == orig.Name.Name && recvTypeName(fd) == recvTypeName(orig) && fd.Body != nil {
			return fd
		}
	}
	return nil
}
