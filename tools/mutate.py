#!/usr/bin/env python3
"""mutate.py <property-id> <pkg-test-pattern> <file> [<file>...]   (env: MUT_MAX, MUT_WORKERS, VERIF_ONLY)

Small mutation campaign used to look for blind spots of a check (a development aid, not a
registered command). For every mutant of the given repository files (relational operator swaps,
off-by-one constants, boolean connective swaps, condition negation, dropped error returns) in a
scratch worktree under /tmp:

  1. build the module; a mutant that does not compile is skipped;
  2. run the package's own tests; a mutant they kill is of no interest (tests already notice);
  3. run `check <id> quick` against the mutated tree and record violation / inconclusive / pass.

Results are appended to /root/scratch/mut/<id>.jsonl; "pass" entries are candidates for triage
(either an equivalent mutant, a change the property does not forbid, or a blind spot).
"""
import json, os, re, subprocess, sys, threading, queue, hashlib

V = os.path.dirname(os.path.dirname(os.path.abspath(__file__)))
pid, pkgpat, files = sys.argv[1], sys.argv[2], sys.argv[3:]
MAX = int(os.environ.get("MUT_MAX", "400"))
WORKERS = int(os.environ.get("MUT_WORKERS", "3"))
OUT = "/root/scratch/mut"
os.makedirs(OUT, exist_ok=True)
env = dict(os.environ, GOPROXY="off", GOSUMDB="off", GOTOOLCHAIN="local", GOFLAGS="")

OPS = [
    (r"(?<![<>=!:+\-*/&|^])<=(?!=)", "<"), (r"(?<![<>=!\-])<(?![<=\-])", "<="),
    (r"(?<![<>=!\-])>=(?!=)", ">"), (r"(?<![<>=!\-])>(?![>=])", ">="),
    (r"==", "!="), (r"!=", "=="),
    (r"&&", "||"), (r"\|\|", "&&"),
    (r"\+ 1\b", "+ 0"), (r"- 1\b", "- 0"), (r"\+ 1\b", "+ 2"),
    (r"\btrue\b", "false"), (r"\bfalse\b", "true"),
    (r"\bif !", "if "), (r"\breturn err\b", "return nil"),
    (r"\bcontinue\b", "break"), (r"\bbreak\b", "continue"),
]
SKIP = re.compile(r"^\s*(//|\*|import|package|\"|\)|}\s*$)|fmt\.Errorf|errors\.New|output\.|logger\.|Infof|Warningf|Errorf\(|glog|`")


def mutants():
    out = []
    for f in files:
        lines = open(os.path.join("/repo", f)).read().split("\n")
        infunc = False
        for i, line in enumerate(lines):
            if line.startswith("func "):
                infunc = True
            if not infunc or SKIP.search(line):
                continue
            code = line.split("//")[0]
            for pat, rep in OPS:
                for m in re.finditer(pat, code):
                    # not inside a string literal (even number of quotes before)
                    if code[:m.start()].count('"') % 2:
                        continue
                    new = line[:m.start()] + rep + line[m.end():]
                    out.append((f, i, line, new))
    # deterministic spread over the files
    out.sort(key=lambda x: hashlib.sha1(("%s:%d:%s" % (x[0], x[1], x[3])).encode()).hexdigest())
    return out[:MAX]


def sh(cmd, cwd, timeout):
    try:
        p = subprocess.run(cmd, shell=True, cwd=cwd, env=env, stdout=subprocess.PIPE, stderr=subprocess.STDOUT, text=True, timeout=timeout)
        return p.returncode, p.stdout
    except subprocess.TimeoutExpired:
        return -9, "timeout"


lock = threading.Lock()


def worker(n, q):
    wt = "/tmp/mut-%s-%d" % (pid, n)
    subprocess.run("git -C /repo worktree remove --force %s" % wt, shell=True, stderr=subprocess.DEVNULL, stdout=subprocess.DEVNULL)
    subprocess.run("git -C /repo worktree add -q --detach %s HEAD" % wt, shell=True, check=True)
    try:
        while True:
            try:
                f, i, old, new = q.get_nowait()
            except queue.Empty:
                return
            path = os.path.join(wt, f)
            src = open(path).read()
            lines = src.split("\n")
            lines[i] = new
            open(path, "w").write("\n".join(lines))
            rec = {"file": f, "line": i + 1, "old": old.strip(), "new": new.strip()}
            mod = os.path.join(wt, "gcetcbendorsement") if f.startswith("gcetcbendorsement/") else wt
            pkgdir = "./" + os.path.dirname(f[len("gcetcbendorsement/"):] if f.startswith("gcetcbendorsement/") else f)
            rc, out = sh("go build %s" % pkgdir, mod, 300)
            if rc != 0:
                rec["result"] = "nocompile"
            else:
                rc, out = sh("go test -count=1 %s" % pkgpat, mod, 600)
                if rc != 0:
                    rec["result"] = "killed-by-tests"
                else:
                    rc, out = sh("VERIF_REPO=%s VERIF_JOBS=4 %s/check %s quick" % (wt, V, pid), V, 3000)
                    if "VIOLATION" in out:
                        rec["result"] = "violation"
                        rec["first"] = [l for l in out.splitlines() if l.startswith("  ")][:1]
                    elif "INCONCLUSIVE" in out:
                        rec["result"] = "inconclusive"
                        rec["first"] = [l[:200] for l in out.splitlines() if l.startswith("INCONCLUSIVE")][:1]
                    else:
                        rec["result"] = "pass"
            open(path, "w").write(src)
            with lock:
                open(os.path.join(OUT, pid + ".jsonl"), "a").write(json.dumps(rec) + "\n")
    finally:
        subprocess.run("git -C /repo worktree remove --force %s" % wt, shell=True, stderr=subprocess.DEVNULL, stdout=subprocess.DEVNULL)


ms = mutants()
print("%s: %d mutants" % (pid, len(ms)))
q = queue.Queue()
for m in ms:
    q.put(m)
ts = [threading.Thread(target=worker, args=(n, q)) for n in range(WORKERS)]
for t in ts:
    t.start()
for t in ts:
    t.join()
print("done", pid)
