#!/usr/bin/env python3
"""Regenerates /verif/MANIFEST.json from harness/specs.json and tools/levels.json."""
import json, os
V = os.path.dirname(os.path.dirname(os.path.abspath(__file__)))
specs = json.load(open(os.path.join(V, "harness", "specs.json")))
levels = json.load(open(os.path.join(V, "tools", "levels.json")))
props = [json.loads(l) for l in open(os.path.join(V, "properties.jsonl"))]
checks, na = [], []
for p in props:
    pid = p["id"]
    if pid in specs and not specs[pid].get("disabled"):
        lv = levels.get(pid, {})
        checks.append({
            "property_id": pid,
            "quick_cmd": "./check %s quick" % pid,
            "thorough_cmd": "./check %s thorough" % pid,
            "evidence_file": "evidence/%s.json" % pid,
            "replay_cmd_template": "./check replay {path}",
            "engine": "gosym",
            "level_claimed": {"category": "model_checking",
                              "text": lv.get("text", "bounded symbolic model checking of the real functions (Go SSA -> SMT); every assertion is discharged by a solver over all inputs within the stated bounds"),
                              "design_ref": lv.get("design_ref", "DESIGN.md section 7 (%s)" % pid)},
            "level_note": lv.get("note", "trusted: go/ssa, the gosym encoder, z3/cvc5; library calls behind the stubs listed in the evidence file; bounds as stated in evidence.coverage.bounds"),
            "technique": lv.get("technique", "bounded symbolic execution of Go SSA with SMT solving (z3 / cvc5), counterexamples replayed natively"),
        })
    else:
        na.append({"property_id": pid, "reason": levels.get(pid, {}).get("na_reason", "check not built yet (work in progress; see DESIGN.md section 7)")})
m = {
    "version": 1,
    "setup_cmd": "cd engine && GOFLAGS=-mod=mod GOPROXY=off GOSUMDB=off GOTOOLCHAIN=local go build -o gosym .",
    "hooks": {"guard": "verif", "enable": "none needed: harnesses are injected with go/packages Overlay (engine) and go test -overlay (replay); /repo carries no hook code",
              "baseline_off_cmd": "/verif/tools/baseline.sh /repo", "source_commits": [], "add_only": True},
    "engines": [{"name": "gosym", "path": "engine", "serves_properties": [c["property_id"] for c in checks],
                 "kind_free_text": "bounded symbolic executor for Go SSA (golang.org/x/tools/go/ssa) emitting SMT-LIB2 for z3 4.8.12 / z3 5.1 / cvc5 1.0"}],
    "checks": checks,
    "not_applicable": na,
    "notes": "Every check regenerates its encoding from /repo's current working tree. known_findings.txt lists repaired (fixed:) and recorded (finding:) defects.",
}
json.dump(m, open(os.path.join(V, "MANIFEST.json"), "w"), indent=1)
print("checks:", [c["property_id"] for c in checks], "not applicable:", len(na))
