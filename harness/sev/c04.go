package sev

import (
	"crypto/sha512"
	"encoding/binary"
	"github.com/google/gce-tcb-verifier/ovmf"

	"github.com/google/gce-tcb-verifier/ovmf/abi"
	spb "github.com/google/gce-tcb-verifier/proto/sev"
	sgpb "github.com/google/go-sev-guest/proto/sevsnp"
	"github.com/google/uuid"
	"google.golang.org/protobuf/proto"
)

// C04: LaunchDigest equals the SNP_LAUNCH_UPDATE digest chain of the AMD SEV-SNP ABI, written
// here independently: PAGE_INFO = DIGEST_CUR[48] | CONTENTS[48] | LENGTH=0x70 (LE16) | PAGE_TYPE |
// IMI=0 | reserved | VMPL1..3 perms = 0 | GPA (LE64); LD <- SHA-384(PAGE_INFO). ROM pages as
// NORMAL ending at 4 GiB ascending, metadata ranges in declared order page by page
// (kind 1 -> UNMEASURED 4, 2 -> SECRETS 5, 3 -> CPUID 6, 4 -> ZERO 3), then one VMSA page per
// vCPU at the product's highest guest-physical page. SHA-384 is the same uninterpreted fold on
// both sides. The image's GUID-table shape is fixed; reset address, section fields and every
// other image byte are symbolic.

//verif:cut (google.golang.org/protobuf/encoding/prototext.UnmarshalOptions).Unmarshal verifVmsaTextUnmarshal

const verifMetaOff = 0x300

func verifPutEntry(fw []byte, end int, size uint16, guid string) {
	binary.LittleEndian.PutUint16(fw[end-18:], size)
	abi.PutUUID(fw[end-16:end], uuid.MustParse(guid))
}

func verifSevImage(n, nsec int) []byte {
	fw := verifNondetArr("fw", n)
	end := n - abi.FwGUIDTableEndOffset
	verifPutEntry(fw, end, 18+22+22, abi.FwGUIDTableFooterGUID)
	binary.LittleEndian.PutUint32(fw[end-18-22:], verifMetaOff)
	verifPutEntry(fw, end-18, 22, abi.SevMetadataOffsetGUID)
	verifPutEntry(fw, end-18-22, 22, abi.SevEsResetBlockGUID)
	m := n - verifMetaOff
	binary.LittleEndian.PutUint32(fw[m:], abi.SevSnpMetadataSignature)
	binary.LittleEndian.PutUint32(fw[m+4:], uint32(16+12*nsec))
	binary.LittleEndian.PutUint32(fw[m+12:], uint32(nsec))
	return fw
}

func verifSection(fw []byte, i int) (addr, length, kind uint32) {
	m := len(fw) - verifMetaOff + 16 + 12*i
	return binary.LittleEndian.Uint32(fw[m:]), binary.LittleEndian.Uint32(fw[m+4:]), binary.LittleEndian.Uint32(fw[m+8:])
}

func verifResetAddr(fw []byte) uint32 {
	end := len(fw) - abi.FwGUIDTableEndOffset
	return binary.LittleEndian.Uint32(fw[end-18-22-22:])
}

// ---- a tiny reader for the VMSA reset-state text (the engine cannot run prototext) ----

func verifHex(s string) uint64 {
	var v uint64
	if len(s) > 2 && s[0] == '0' && (s[1] == 'x' || s[1] == 'X') {
		for i := 2; i < len(s); i++ {
			c := s[i]
			switch {
			case c >= '0' && c <= '9':
				v = v<<4 | uint64(c-'0')
			case c >= 'a' && c <= 'f':
				v = v<<4 | uint64(c-'a'+10)
			case c >= 'A' && c <= 'F':
				v = v<<4 | uint64(c-'A'+10)
			}
		}
		return v
	}
	for i := 0; i < len(s); i++ {
		v = v*10 + uint64(s[i]-'0')
	}
	return v
}

func verifTokens(text string) []string {
	var out []string
	cur := ""
	for i := 0; i < len(text); i++ {
		c := text[i]
		if c == ' ' || c == '\n' || c == '\t' || c == '\r' {
			if cur != "" {
				out = append(out, cur)
				cur = ""
			}
			continue
		}
		cur += string(c)
	}
	if cur != "" {
		out = append(out, cur)
	}
	return out
}

func verifSegField(s *spb.VmcbSeg, name string, v uint64) {
	switch name {
	case "selector:":
		s.Selector = uint32(v)
	case "attrib:":
		s.Attrib = uint32(v)
	case "limit:":
		s.Limit = uint32(v)
	case "base:":
		s.Base = v
	}
}

func verifVmsaTextUnmarshal(o any, b []byte, m proto.Message) error {
	v := m.(*spb.VmcbSaveArea)
	toks := verifTokens(string(b))
	for i := 0; i < len(toks); i++ {
		name := toks[i]
		if i+1 < len(toks) && toks[i+1] == "{" {
			seg := &spb.VmcbSeg{}
			j := i + 2
			for ; j+1 < len(toks) && toks[j] != "}"; j += 2 {
				verifSegField(seg, toks[j], verifHex(toks[j+1]))
			}
			switch name {
			case "es":
				v.Es = seg
			case "cs":
				v.Cs = seg
			case "ss":
				v.Ss = seg
			case "ds":
				v.Ds = seg
			case "fs":
				v.Fs = seg
			case "gs":
				v.Gs = seg
			case "gdtr":
				v.Gdtr = seg
			case "ldtr":
				v.Ldtr = seg
			case "idtr":
				v.Idtr = seg
			case "tr":
				v.Tr = seg
			}
			i = j
			continue
		}
		if i+1 >= len(toks) {
			break
		}
		val := verifHex(toks[i+1])
		switch name {
		case "efer:":
			v.Efer = val
		case "cr0:":
			v.Cr0 = val
		case "cr4:":
			v.Cr4 = val
		case "dr6:":
			v.Dr6 = val
		case "dr7:":
			v.Dr7 = val
		case "rip:":
			v.Rip = val
		case "rflags:":
			v.Rflags = val
		case "g_pat:":
			v.GPat = val
		case "rdx:":
			v.Rdx = val
		case "xcr0:":
			v.Xcr0 = val
		case "sev_features:":
			v.SevFeatures = val
		}
		i++
	}
	return nil
}

// ---- the reference ----

func verifStep(ld [48]byte, contents [48]byte, pageType uint8, gpa uint64) [48]byte {
	var info [0x70]byte
	copy(info[0:], ld[:])
	copy(info[0x30:], contents[:])
	binary.LittleEndian.PutUint16(info[0x60:], 0x70)
	info[0x62] = pageType
	binary.LittleEndian.PutUint64(info[0x68:], gpa)
	return sha512.Sum384(info[:])
}

type verifSegVal struct {
	off              int
	sel, attr, limit uint64
	base             uint64
}

// verifVmsaPage: reset state of a vCPU per AMD APM vol. 2 (processor state after INIT as QEMU/KVM
// present it to SEV-ES guests), at the save-area offsets of table B-4.
func verifVmsaPage(ap bool, resetAddr uint32) []byte {
	p := make([]byte, 4096)
	segs := []verifSegVal{{0x00, 0, 0x93, 0xffff, 0}, {0x10, 0xf000, 0x9b, 0xffff, 0xffff0000}, {0x20, 0, 0x93, 0xffff, 0}, {0x30, 0, 0x93, 0xffff, 0},
		{0x40, 0, 0x93, 0xffff, 0}, {0x50, 0, 0x93, 0xffff, 0}, {0x60, 0, 0, 0xffff, 0}, {0x70, 0, 0x82, 0xffff, 0}, {0x80, 0, 0, 0xffff, 0}, {0x90, 0, 0x8b, 0xffff, 0}}
	rip := uint64(0xfff0)
	if ap {
		segs[1].base = uint64(resetAddr) & 0xffff0000
		rip = uint64(resetAddr) & 0xffff
	}
	for _, s := range segs {
		binary.LittleEndian.PutUint16(p[s.off:], uint16(s.sel))
		binary.LittleEndian.PutUint16(p[s.off+2:], uint16(s.attr))
		binary.LittleEndian.PutUint32(p[s.off+4:], uint32(s.limit))
		binary.LittleEndian.PutUint64(p[s.off+8:], s.base)
	}
	binary.LittleEndian.PutUint64(p[0xD0:], 0x1000)      // EFER.SVME
	binary.LittleEndian.PutUint64(p[0x148:], 0x40)       // CR4.MCE
	binary.LittleEndian.PutUint64(p[0x158:], 0x10)       // CR0.ET
	binary.LittleEndian.PutUint64(p[0x160:], 0x400)      // DR7
	binary.LittleEndian.PutUint64(p[0x168:], 0xffff0ff0) // DR6
	binary.LittleEndian.PutUint64(p[0x170:], 0x2)        // RFLAGS
	binary.LittleEndian.PutUint64(p[0x178:], rip)        // RIP
	binary.LittleEndian.PutUint64(p[0x268:], 0x70106)    // G_PAT
	binary.LittleEndian.PutUint64(p[0x310:], 0x600)      // RDX = family/model/stepping
	binary.LittleEndian.PutUint64(p[0x3B0:], 0x1)        // SEV_FEATURES.SNP
	binary.LittleEndian.PutUint64(p[0x3E8:], 0x1)        // XCR0
	return p
}

func verifKindType(kind uint32) (uint8, bool) {
	switch kind {
	case 1:
		return 4, true
	case 2:
		return 5, true
	case 3:
		return 6, true
	case 4:
		return 3, true
	}
	return 0, false
}

func verifC04(nsec, vcpus int, product sgpb.SevProduct_SevProductName, bits uint) {
	const n = 4096
	verifUnwindCut(nsec) // symbolic decisions per loop head: one per declared section and page
	fw := verifSevImage(n, nsec)
	orig := append([]byte(nil), fw...)
	for i := 0; i < nsec; i++ {
		_, l, _ := verifSection(fw, i)
		verifAssume(l <= 2*4096, "metadata sections are at most two pages (stated bound)")
	}
	got, err := LaunchDigest(&LaunchOptions{Vcpus: vcpus, Product: product}, fw)
	verifObserve("ok", err == nil)
	// image bytes unchanged
	same := true
	for i := 0; i < n; i += 97 {
		same = same && fw[i] == orig[i]
	}
	verifAssert(same, "the computation leaves the image bytes unchanged")
	// well-formedness of the declared metadata
	wellFormed := true
	seen := map[uint32]bool{}
	for i := 0; i < nsec; i++ {
		a, l, k := verifSection(fw, i)
		_, known := verifKindType(k)
		wellFormed = wellFormed && known && l != 0 && l%4096 == 0 && a%4096 == 0
		if (k == 2 || k == 3) && seen[k] {
			wellFormed = false
		}
		seen[k] = true
		for j := 0; j < i; j++ {
			a2, l2, _ := verifSection(fw, j)
			if uint64(a) < uint64(a2)+uint64(l2) && uint64(a2) < uint64(a)+uint64(l) {
				wellFormed = false
			}
		}
	}
	wellFormed = wellFormed && seen[1] && seen[2] && seen[3]
	if err != nil {
		verifReach("rejected")
		verifReach("end")
		return
	}
	verifReach("accepted")
	verifAssert(wellFormed, "an image is accepted only if its SNP metadata is well-formed (aligned non-empty ranges, no overlap in 64-bit arithmetic, one CPUID and one secrets page, all mandatory kinds, known kinds)")
	if !wellFormed {
		return
	}
	var ld [48]byte
	for p := 0; p < n/4096; p++ {
		ld = verifStep(ld, sha512.Sum384(fw[p*4096:(p+1)*4096]), 1, uint64(4<<30)-n+uint64(p)*4096)
	}
	for i := 0; i < nsec; i++ {
		a, l, k := verifSection(fw, i)
		t, _ := verifKindType(k)
		for off := uint32(0); off < l; off += 4096 {
			ld = verifStep(ld, [48]byte{}, t, uint64(a)+uint64(off))
		}
	}
	vmsaGpa := ((uint64(1) << bits) - 1) &^ 0xfff
	for c := 0; c < vcpus; c++ {
		ld = verifStep(ld, sha512.Sum384(verifVmsaPage(c > 0, verifResetAddr(fw))), 2, vmsaGpa)
	}
	eq := len(got) == 48
	for i := 0; i < 48 && i < len(got); i++ {
		eq = eq && got[i] == ld[i]
	}
	verifAssert(eq, "launch digest = SNP_LAUNCH_UPDATE chain over ROM pages, metadata pages in declared order and VMSA pages")
	verifReach("end")
}

func VerifC04Milan1()     { verifC04(3, 1, sgpb.SevProduct_SEV_PRODUCT_MILAN, 48) }
func VerifC04Milan2()     { verifC04(3, 2, sgpb.SevProduct_SEV_PRODUCT_MILAN, 48) }
func VerifC04Genoa2()     { verifC04(3, 2, sgpb.SevProduct_SEV_PRODUCT_GENOA, 52) }
func VerifC04Milan3Sec4() { verifC04(4, 3, sgpb.SevProduct_SEV_PRODUCT_MILAN, 48) }

func VerifC04NoVcpus() {
	fw := verifSevImage(4096, 3)
	vcpus := verifNondetInt("vcpus")
	verifAssume(vcpus < 1, "a vCPU count below one")
	_, err := LaunchDigest(&LaunchOptions{Vcpus: vcpus, Product: sgpb.SevProduct_SEV_PRODUCT_MILAN}, fw)
	verifAssert(err != nil, "a vCPU count below one is refused")
	verifReach("end")
}

// The application processors' VMSA: same reset state as the boot processor except that execution
// starts at the SEV-ES reset block's address (rip = low 16 bits, cs.base = high 16 bits), for
// every address — in particular those with a zero half. A cheap obligation next to the digest
// ones (no hashing), so that a field-placement slip is caught even where the digest comparison is
// slow to decide.
func VerifC04ApVmsa() {
	fw := verifSevImage(4096, 3)
	data := &ovmf.SevData{SevEs: true, SevSnp: true}
	if err := data.ExtractFromFirmware(fw); err != nil {
		verifReach("rejected")
		verifReach("end")
		return
	}
	vmsas, err := prepareVmsas(&LaunchOptions{Vcpus: 3, Product: sgpb.SevProduct_SEV_PRODUCT_MILAN}, data)
	if err != nil {
		verifReach("rejected")
		verifReach("end")
		return
	}
	verifReach("accepted")
	addr := verifResetAddr(fw)
	verifAssert(len(vmsas) == 3, "one VMSA per vCPU")
	bsp, ap := vmsas[0], vmsas[1]
	verifAssert(bsp.Rip == 0xfff0 && bsp.Cs != nil && bsp.Cs.Base == 0xffff0000, "the boot processor starts at the reset vector")
	verifAssert(ap.Rip == uint64(addr&0xffff) && ap.Cs != nil && ap.Cs.Base == uint64(addr&0xffff0000), "an application processor starts at the SEV-ES reset block's address")
	verifAssert(vmsas[2].Rip == ap.Rip && vmsas[2].Cs.Base == ap.Cs.Base, "every application processor starts there")
	// everything else is the boot processor's reset state
	cp := proto.Clone(ap).(*spb.VmcbSaveArea)
	cp.Rip, cp.Cs.Base = bsp.Rip, bsp.Cs.Base
	verifAssert(proto.Equal(cp, bsp), "all other VMSA fields equal the boot processor's")
	verifReach("end")
}
