package main

import (
	"strconv"
	"fmt"
	"go/types"
	"strings"

	"golang.org/x/tools/go/ssa"
)

// verifAPI implements the harness primitives (functions named verif* in the harness runtime
// file). Their Go bodies are used by the native replay; here they are intercepted by name.
func (e *Engine) verifAPI(s *State, f *Frame, call *ssa.Call, fn *ssa.Function, short string, args []Value, in ssa.Instruction) bool {
	set := func(v Value) { e.setResult(s, call, v) }
	switch {
	case strings.HasPrefix(short, "verifNondetU") || strings.HasPrefix(short, "verifNondetI"):
		var w int
		switch short {
		case "verifNondetInt":
			w = 64
		default:
			if _, err := fmt.Sscanf(short[len("verifNondetU"):], "%d", &w); err != nil {
				return false
			}
		}
		set(s.Fresh(strArg(args[0]), BV(w)))
		return true
	case short == "verifNondetBool":
		set(s.Fresh(strArg(args[0]), BoolSort))
		return true
	case short == "verifNondetBytes":
		n := intArg(args[1])
		cells := make([]*Term, n)
		for i := range cells {
			cells[i] = s.Fresh(strArg(args[0]), BV(8))
		}
		set(e.newByteSlice(s, cells))
		return true
	case short == "verifNondetStr":
		n := intArg(args[1])
		cells := make([]*Term, n)
		for i := range cells {
			cells[i] = s.Fresh(strArg(args[0]), BV(8))
		}
		set(mkStr(cells))
		return true
	case short == "verifNondetArr":
		name := smtName(strArg(args[0]))
		n := args[1].(*Term)
		if _, dup := e.arrNames[name]; dup {
			unsupp("duplicate nondet array name %s", name)
		}
		arr := Var("arr."+name, ArrSort)
		e.arrNames[name] = arr
		e.arrLens[name] = n
		id := e.alloc(s, &SymArrV{Arr: arr, Len: n})
		set(SliceV{Obj: id, Off: I64(0), Len: n, Cap: n})
		return true
	case short == "verifAssume":
		c := args[0].(*Term)
		if len(args) > 1 {
			for _, w := range e.variadic(s, args[1]) {
				e.Assumes[strArg(w)] = true
			}
		}
		r := e.check(s, c)
		if r == "unsat" {
			s.Status = "assume-false"
			return true
		}
		e.assume(s, c)
		set(nil)
		return true
	case short == "verifAssert":
		c, ok := args[0].(*Term)
		if !ok {
			unsupp("assertion over %T", args[0])
		}
		msg := strArg(args[1])
		e.AssertsN[msg]++
		e.Stats["asserts"]++
		r := e.check(s, Not(c))
		switch r {
		case "sat":
			e.violate(s, "assert", msg, Not(c), in)
			// continue on the side where the assertion holds, if any
			if !e.feasible(s, c) {
				s.Status = "assert-failed"
				return true
			}
			e.assume(s, c)
		case "unknown":
			e.incon(fmt.Sprintf("solver unknown on assertion %q at %s", msg, e.instrPos(s, in)))
		default:
			e.Stats["asserts-unsat"]++
			if e.Solver.CrossAll && c != True {
				x := e.Solver.CrossCheck(s.PC, Not(c), "cvc5")
				e.Stats["cross-checked"]++
				if x == "sat" {
					e.incon(fmt.Sprintf("solver disagreement on assertion %q at %s (z3 unsat, cvc5 sat)", msg, e.instrPos(s, in)))
				}
			}
		}
		set(nil)
		return true
	case short == "verifReach":
		tag := strArg(args[0])
		// counted only if this point is feasible
		if e.Solver.Check(s.PC, nil) != "unsat" {
			e.Reached[tag]++
			s.Reach = append(s.Reach, tag)
		}
		set(nil)
		return true
	case short == "verifObserve":
		v := args[1]
		if iv, ok := v.(IfaceV); ok {
			v = iv.V
		}
		s.Obs = append(s.Obs, Obs{strArg(args[0]), v})
		set(nil)
		return true
	case short == "verifUnwind":
		s.Unwind = intArg(args[0])
		set(nil)
		return true
	case short == "verifSpawn":
		fv := args[0].(FuncV)
		if fv.Fn == nil {
			unsupp("verifSpawn of nil")
		}
		s.NextTID++
		t := &Thread{ID: s.NextTID}
		saved := s.Frames
		s.Frames = nil
		e.pushFrame(s, fv.Fn, nil, fv.Bind, nil)
		t.Frames = s.Frames
		t.Frames[0].Drop = true
		s.Frames = saved
		s.Parked = append(s.Parked, t)
		e.Stats["threads-spawned"]++
		set(nil)
		return true
	case short == "verifYield":
		set(nil)
		e.scheduleFrom(s, true)
		return true
	case short == "verifJoinAll":
		set(nil)
		if len(s.Parked) == 0 {
			return true
		}
		s.CurWait = true
		// park this thread as waiting and run the others to completion (all orders)
		me := &Thread{ID: s.CurID, Frames: s.Frames, Waiting: true}
		s.Frames = nil
		s.Parked = append(s.Parked, me)
		e.scheduleFrom(s, false)
		return true
	case short == "verifThreadID":
		set(I64(s.CurID))
		return true
	case short == "verifTripBound":
		s.TripBound = intArg(args[0])
		set(nil)
		return true
	case short == "verifUnwindCut":
		s.Unwind = intArg(args[0])
		s.UnwindCut = true
		set(nil)
		return true
	case short == "verifAllocBudget":
		s.Budget = args[0].(*Term)
		if s.Alloc == nil {
			s.Alloc = I64(0)
		}
		set(nil)
		return true
	case short == "verifAllocated":
		if s.Alloc == nil {
			s.Alloc = I64(0)
		}
		set(s.Alloc)
		return true
	case short == "verifPanicOK":
		e.PanicOK = true
		set(nil)
		return true
	case short == "verifMapPerm":
		e.MapPerm = args[0] == True
		set(nil)
		return true
	case short == "verifConcretize":
		t := args[0].(*Term)
		lo, hi := intArg(args[1]), intArg(args[2])
		vals := e.feasibleValues(s, t, lo, hi)
		if len(vals) == 0 {
			s.Status = "infeasible"
			return true
		}
		for _, v := range vals[1:] {
			o := s.Clone()
			o.PC = append(o.PC, Eq(t, BVInt(int64(v), t.Sort.Width)))
			e.setResult(o, call, BVInt(int64(v), t.Sort.Width))
			e.Pending = append(e.Pending, o)
		}
		s.top()
		e.assume(s, Eq(t, BVInt(int64(vals[0]), t.Sort.Width)))
		set(BVInt(int64(vals[0]), t.Sort.Width))
		return true
	case short == "verifUF64":
		vs := e.variadic(s, args[1])
		ts := make([]*Term, len(vs))
		for i, v := range vs {
			ts[i] = v.(*Term)
		}
		r := UF("h."+strArg(args[0]), BV(64), ts...)
		e.noteUF(strArg(args[0]), ts, r)
		set(r)
		return true
	case short == "verifUFBool":
		vs := e.variadic(s, args[1])
		ts := make([]*Term, len(vs))
		for i, v := range vs {
			ts[i] = v.(*Term)
		}
		r := UF("h."+strArg(args[0]), BoolSort, ts...)
		e.noteUF(strArg(args[0]), ts, r)
		set(r)
		return true
	case short == "verifHashBytes":
		// verifHashBytes(name string, b []byte) uint64: abstract digest of a byte string
		cells := e.bytesOfSlice(s, args[1])
		set(hashFold("h."+strArg(args[0]), BVInt(0, 64), cells))
		return true
	case short == "verifSameSlice":
		a, b := args[0].(SliceV), args[1].(SliceV)
		if a.Obj != b.Obj || !pathEq(a.Path, b.Path) {
			set(False)
			return true
		}
		set(And(Eq(a.Off, b.Off), Eq(a.Len, b.Len)))
		return true
	case short == "verifSolver":
		e.Solver.Pref = strArg(args[0])
		set(nil)
		return true
	case short == "verifSymbolic":
		// true under the engine, false in a native replay: lets a harness reach a callee through an
		// equivalent natively executable route when the engine's route uses a //verif:cut
		set(True)
		return true
	case short == "verifIsNilSlice":
		set(Bool(args[0].(SliceV).Obj == 0))
		return true
	case short == "verifSwap":
		// verifSwap(x any, i, j int): swap two elements of the slice held in x
		iv := args[0].(IfaceV)
		sl := iv.V.(SliceV)
		i, j := intArg(args[1]), intArg(args[2])
		pi := PtrV{Obj: sl.Obj, Path: extendPath(sl.Path, elemAt(sl.Off, i))}
		pj := PtrV{Obj: sl.Obj, Path: extendPath(sl.Path, elemAt(sl.Off, j))}
		vi, vj := e.load(s, pi), e.load(s, pj)
		e.store(s, pi, vj)
		e.store(s, pj, vi)
		set(nil)
		return true
	case short == "verifLenAny":
		iv := args[0].(IfaceV)
		set(iv.V.(SliceV).Len)
		return true
	case short == "verifEncodeFixed":
		big := strings.Contains(types.TypeString(args[0].(IfaceV).T, nil), "bigEndian")
		iv := args[1].(IfaceV)
		cells := e.fixedCells(s, iv.V, iv.T, big)
		set(e.newByteSlice(s, cells))
		return true
	case short == "verifFixedSize":
		iv := args[0].(IfaceV)
		t := iv.T
		if p, ok := t.Underlying().(*types.Pointer); ok {
			t = p.Elem()
		}
		set(I64(e.fixedSize(s, iv.V, t)))
		return true
	case short == "verifDecodeFixed":
		big := strings.Contains(types.TypeString(args[0].(IfaceV).T, nil), "bigEndian")
		cells := e.bytesOfSlice(s, args[1])
		iv := args[2].(IfaceV)
		e.decodeFixed(s, cells, iv.V, iv.T, big)
		set(nil)
		return true
	case short == "verifDeepCopy":
		iv := args[0].(IfaceV)
		if iv.T == nil {
			set(iv)
			return true
		}
		set(IfaceV{T: iv.T, V: e.deepCopy(s, iv.V, iv.T, map[int]int{})})
		return true
	case short == "verifDeepEqual":
		a, b := args[0].(IfaceV), args[1].(IfaceV)
		if a.T == nil || b.T == nil {
			set(Bool(a.T == nil && b.T == nil))
			return true
		}
		set(e.deepEqual(s, a.V, b.V, a.T, true, 0))
		return true
	case short == "verifComparableErr":
		iv := args[0].(IfaceV)
		set(Bool(iv.T == nil || types.Comparable(iv.T)))
		return true
	case short == "verifTypeName":
		iv := args[0].(IfaceV)
		if iv.T == nil {
			set(StrV{"<nil>"})
		} else {
			set(StrV{types.TypeString(iv.T, nil)})
		}
		return true
	}
	return false
}

// fixedCells serialises a fixed-size value the way encoding/binary does.
func (e *Engine) fixedCells(s *State, v Value, t types.Type, big bool) []*Term {
	switch x := v.(type) {
	case *Term:
		if x.Sort.Kind == 0 {
			return []*Term{Ite(x, BVInt(1, 8), BVInt(0, 8))}
		}
		n := x.Sort.Width / 8
		out := make([]*Term, n)
		for i := 0; i < n; i++ {
			b := Extract(8*i+7, 8*i, x)
			if big {
				out[n-1-i] = b
			} else {
				out[i] = b
			}
		}
		return out
	case *ArrayV:
		et := t.Underlying().(*types.Array).Elem()
		var out []*Term
		for _, el := range x.E {
			out = append(out, e.fixedCells(s, el, et, big)...)
		}
		return out
	case *StructV:
		st := t.Underlying().(*types.Struct)
		var out []*Term
		for i, f := range x.F {
			out = append(out, e.fixedCells(s, f, st.Field(i).Type(), big)...)
		}
		return out
	case SliceV:
		et := t.Underlying().(*types.Slice).Elem()
		var out []*Term
		for _, el := range e.sliceElems(s, x) {
			out = append(out, e.fixedCells(s, el, et, big)...)
		}
		return out
	case PtrV:
		pt := t.Underlying().(*types.Pointer).Elem()
		return e.fixedCells(s, e.load(s, x), pt, big)
	}
	unsupp("binary.Write of %T", v)
	return nil
}

func (e *Engine) fixedSize(s *State, v Value, t types.Type) int {
	switch u := t.Underlying().(type) {
	case *types.Basic:
		if w, _, ok := intWidth(u); ok {
			return w / 8
		}
		if u.Kind() == types.Bool {
			return 1
		}
	case *types.Array:
		return int(u.Len()) * e.fixedSize(s, nil, u.Elem())
	case *types.Struct:
		n := 0
		for i := 0; i < u.NumFields(); i++ {
			n += e.fixedSize(s, nil, u.Field(i).Type())
		}
		return n
	case *types.Slice:
		if sl, ok := v.(SliceV); ok {
			n, ok := cint(sl.Len)
			if !ok {
				unsupp("binary.Read into symbolic-length slice")
			}
			return n * e.fixedSize(s, nil, u.Elem())
		}
	}
	unsupp("binary.Read/Write size of %v", t)
	return 0
}

func (e *Engine) decodeFixed(s *State, cells []*Term, v Value, t types.Type, big bool) {
	switch x := v.(type) {
	case PtrV:
		pt := t.Underlying().(*types.Pointer).Elem()
		nv, _ := e.decodeValue(cells, pt, big)
		e.store(s, x, nv)
		return
	case SliceV:
		et := t.Underlying().(*types.Slice).Elem()
		n, _ := cint(x.Len)
		for i := 0; i < n; i++ {
			var nv Value
			nv, cells = e.decodeValue(cells, et, big)
			e.store(s, PtrV{Obj: x.Obj, Path: extendPath(x.Path, elemAt(x.Off, i))}, nv)
		}
		return
	}
	unsupp("binary.Read into %T", v)
}

func (e *Engine) decodeValue(cells []*Term, t types.Type, big bool) (Value, []*Term) {
	switch u := t.Underlying().(type) {
	case *types.Basic:
		if w, _, ok := intWidth(u); ok {
			n := w / 8
			var r *Term
			for i := 0; i < n; i++ {
				var b *Term
				if big {
					b = cells[i]
				} else {
					b = cells[n-1-i]
				}
				if r == nil {
					r = b
				} else {
					r = Concat(r, b)
				}
			}
			return r, cells[n:]
		}
		if u.Kind() == types.Bool {
			return Not(Eq(cells[0], BVInt(0, 8))), cells[1:]
		}
	case *types.Array:
		els := make([]Value, u.Len())
		for i := range els {
			els[i], cells = e.decodeValue(cells, u.Elem(), big)
		}
		return &ArrayV{els}, cells
	case *types.Struct:
		fs := make([]Value, u.NumFields())
		for i := range fs {
			fs[i], cells = e.decodeValue(cells, u.Field(i).Type(), big)
		}
		return &StructV{fs}, cells
	}
	unsupp("binary.Read of %v", t)
	return nil, nil
}

// ufApp is one application of a harness-level uninterpreted function (verifUF64 / verifUFBool).
// Models of findings and witnesses carry the value of every application, keyed the way the native
// runtime looks them up, so that a replay uses the function the solver chose.
type ufApp struct {
	name string
	args []*Term
	res  *Term
}

func (e *Engine) noteUF(name string, args []*Term, res *Term) {
	if e.ufSeen == nil {
		e.ufSeen = map[int]bool{}
	}
	if e.ufSeen[res.ID] {
		return
	}
	e.ufSeen[res.ID] = true
	e.ufApps = append(e.ufApps, ufApp{name, args, res})
}

// ufTable evaluates the recorded applications under the model m of path condition pc.
func (e *Engine) ufTable(pc []*Term, m map[string]string) map[string]string {
	if len(e.ufApps) == 0 {
		return nil
	}
	pinned := append([]*Term(nil), pc...)
	for _, v := range varOrder {
		if lit, has := m[v.Name]; has && v.Sort.Kind != 2 {
			if u, ok := litToUint(lit); ok {
				if v.Sort.Kind == 0 {
					pinned = append(pinned, Eq(v, Bool(u != 0)))
				} else if v.Sort.Width <= 64 {
					pinned = append(pinned, Eq(v, BVUint(u, v.Sort.Width)))
				}
			}
		}
	}
	var evals []*Term
	for _, a := range e.ufApps {
		for _, t := range a.args {
			if !t.IsConst() && t.Op != "var" {
				evals = append(evals, t)
			}
		}
		evals = append(evals, a.res)
	}
	ev, ok := e.Solver.Model(pinned, nil, nil, nil, evals...)
	if !ok {
		return nil
	}
	val := func(t *Term) (uint64, bool) {
		if t.IsConst() {
			return t.Const.Uint64(), true
		}
		if t.Op == "var" {
			return litToUint(m[t.Name])
		}
		return litToUint(ev[fmt.Sprintf("eval:%d", t.ID)])
	}
	out := map[string]string{}
	for _, a := range e.ufApps {
		key := a.name
		good := true
		for _, t := range a.args {
			u, ok := val(t)
			if !ok {
				good = false
				break
			}
			key += "," + strconv.FormatUint(u, 10)
		}
		if !good {
			continue
		}
		if u, ok := val(a.res); ok {
			out[key] = strconv.FormatUint(u, 10)
		}
	}
	return out
}
