package main

// defaultModels maps library functions to Go models defined in the harness runtime file
// (rt_models.go). A model is used only if the harness package defines it.
var defaultModels = map[string]string{
	"errors.Is":                        "verifModelErrorsIs",
	"errors.As":                        "verifModelErrorsAs",
	"errors.Unwrap":                    "verifModelErrorsUnwrap",
	"errors.Join":                      "verifModelErrorsJoin",
	"fmt.Errorf":                       "verifModelErrorf",
	"sort.Slice":                       "verifModelSortSlice",
	"golang.org/x/exp/slices.SortFunc": "verifModelSortFunc",
	"slices.SortFunc":                  "verifModelSortFunc",
	"go.uber.org/multierr.Combine":     "verifModelMultierrCombine",
	"go.uber.org/multierr.Append":      "verifModelMultierrAppend",
	"encoding/binary.Write":            "verifModelBinaryWrite",
	"encoding/binary.Read":             "verifModelBinaryRead",
	"(time.Time).AddDate":              "verifModelAddDate",
}
