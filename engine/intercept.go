package main

import (
	"encoding/hex"
	"fmt"
	"go/types"
	"path"
	"strconv"
	"strings"

	"golang.org/x/tools/go/ssa"
)

func strArg(v Value) string {
	s, ok := v.(StrV)
	if !ok {
		unsupp("expected concrete string, got %T", v)
	}
	return s.S
}

func intArg(v Value) int {
	c, ok := cint(v.(*Term))
	if !ok {
		unsupp("expected concrete integer")
	}
	return c
}

// bytesOfSlice returns the cells of a byte slice with concrete length.
func (e *Engine) bytesOfSlice(s *State, v Value) []*Term {
	sl, ok := v.(SliceV)
	if !ok {
		unsupp("expected []byte, got %T", v)
	}
	els := e.sliceElems(s, sl)
	out := make([]*Term, len(els))
	for i, x := range els {
		t, ok := x.(*Term)
		if !ok {
			unsupp("byte slice element is %T", x)
		}
		out[i] = t
	}
	return out
}

func (e *Engine) newByteSlice(s *State, cells []*Term) SliceV {
	arr := make([]Value, len(cells))
	for i := range arr {
		arr[i] = cells[i]
	}
	id := e.alloc(s, &ArrayV{arr})
	return SliceV{Obj: id, Off: I64(0), Len: I64(len(arr)), Cap: I64(len(arr))}
}

func allConcrete(cells []*Term) ([]byte, bool) {
	out := make([]byte, len(cells))
	for i, c := range cells {
		if !c.IsConst() {
			return nil, false
		}
		out[i] = byte(c.Const.Int64())
	}
	return out, true
}

func constCells(b []byte) []*Term {
	out := make([]*Term, len(b))
	for i := range b {
		out[i] = BVInt(int64(b[i]), 8)
	}
	return out
}

// hashFold folds bytes into an abstract 64-bit hash state, one uninterpreted step per byte, so
// the result does not depend on how the caller chunked its writes.
func hashFold(alg string, st *Term, cells []*Term) *Term {
	for _, c := range cells {
		st = UF("verif."+alg+".step", BV(64), st, c)
	}
	return st
}

func hashOut(alg string, st *Term, n int) []*Term {
	out := make([]*Term, n)
	for i := range out {
		out[i] = UF("verif."+alg+".out", BV(8), st, BVInt(int64(i), 8))
	}
	return out
}

func errorIface(e *Engine, s *State, msg string) IfaceV {
	// a fresh error object with identity: *errors.errorString
	p := e.Prog.ImportedPackage("errors")
	if p == nil {
		unsupp("errors package not loaded")
	}
	t := p.Type("errorString").Type()
	id := e.alloc(s, &StructV{F: []Value{StrV{msg}}})
	return IfaceV{T: types.NewPointer(t), V: PtrV{Obj: id}}
}

func (e *Engine) nativeMethod(t types.Type, name string) (string, bool) { return "", false }

func (e *Engine) callNative(s *State, f *Frame, call *ssa.Call, name string, args []Value, in ssa.Instruction) {
	unsupp("native %s", name)
}

// intrinsic handles harness primitives and library models. Returns true if the call was handled.
func (e *Engine) intrinsic(s *State, f *Frame, call *ssa.Call, fn *ssa.Function, name string, args []Value, in ssa.Instruction) bool {
	short := fn.Name()
	set := func(v Value) { e.setResult(s, call, v) }
	if strings.HasPrefix(short, "verif") {
		if e.verifAPI(s, f, call, fn, short, args, in) {
			return true
		}
	}
	if fn.Pkg != nil {
		pp := fn.Pkg.Pkg.Path()
		if short == "init" && fn.Signature.Recv() == nil && fn.Synthetic != "" {
			return true // package initialisers of dependencies run lazily (ensureInit)
		}
		if strings.HasSuffix(pp, "/cmd/output") && fn.Signature.Recv() == nil && (strings.HasSuffix(short, "f") || short == "Print" || short == "Println") {
			e.Stubs["cmd/output logging: empty body"] = true
			set(nil)
			if fn.Signature.Results().Len() > 0 {
				set(zeroValue(fn.Signature.Results()))
			}
			return true
		}
		if pp == "github.com/google/logger" || pp == "log" {
			e.Stubs["logging: empty body"] = true
			if fn.Signature.Results().Len() == 0 {
				set(nil)
				return true
			}
		}
	}
	if e.bigIntrinsic(s, call, name, args) {
		return true
	}
	switch name {
	case "context.WithValue":
		vt := e.Prog.ImportedPackage("context").Type("valueCtx").Type()
		id := e.alloc(s, &StructV{F: []Value{args[0], args[1], args[2]}})
		set(IfaceV{T: types.NewPointer(vt), V: PtrV{Obj: id}})
		return true
	case "google.golang.org/protobuf/proto.Clone":
		iv := args[0].(IfaceV)
		if iv.T == nil {
			set(iv)
			return true
		}
		e.Stubs["proto.Clone: generic deep copy of the message's Go value"] = true
		set(IfaceV{T: iv.T, V: e.deepCopy(s, iv.V, iv.T, map[int]int{})})
		return true
	case "google.golang.org/protobuf/proto.Merge":
		d, sr := args[0].(IfaceV), args[1].(IfaceV)
		e.Stubs["proto.Merge: proto3 merge over the messages' Go values (non-zero scalars replace, set sub-messages merge)"] = true
		if d.T == nil || sr.T == nil {
			unsupp("proto.Merge of a nil message")
		}
		dp, ok1 := d.V.(PtrV)
		sp, ok2 := sr.V.(PtrV)
		if !ok1 || !ok2 || dp.Obj == 0 || sp.Obj == 0 {
			unsupp("proto.Merge operands are not message pointers")
		}
		e.protoMerge(s, dp, sp, d.T, 0)
		set(nil)
		return true
	case "google.golang.org/protobuf/proto.Equal":
		a, b := args[0].(IfaceV), args[1].(IfaceV)
		e.Stubs["proto.Equal: generic deep equality (nil and empty repeated fields equal)"] = true
		if a.T == nil || b.T == nil {
			set(Bool(a.T == nil && b.T == nil))
			return true
		}
		set(e.deepEqual(s, a.V, b.V, a.T, false, 0))
		return true
	case "context.WithCancel", "context.WithTimeout", "context.WithDeadline":
		e.Stubs[name+": returns parent context and a no-op cancel"] = true
		set(TupleV{args[0], FuncV{Native: "noop"}})
		return true
	case "fmt.Sprintf":
		set(e.sprintf(s, strArg(args[0]), e.variadic(s, args[1])))
		return true
	case "fmt.Sprint":
		vs := e.variadic(s, args[0])
		var cells []*Term
		for _, v := range vs {
			c, _ := strCells(e.fmtValue(s, 'v', v))
			cells = append(cells, c...)
		}
		set(mkStr(cells))
		return true
	case "fmt.Println", "fmt.Printf", "fmt.Print":
		e.Stubs["fmt.Print*: no output modelled"] = true
		set(TupleV{I64(0), IfaceV{}})
		return true
	case "encoding/hex.EncodeToString":
		sl := args[0].(SliceV)
		if _, conc := cint(sl.Len); !conc && sl.Obj != 0 {
			// symbolic length with few feasible values: one path per length
			vals, complete := e.enumValues(s, sl.Len, 8)
			if !complete {
				unsupp("hex.EncodeToString of a slice whose length has more than 8 feasible values")
			}
			if len(vals) == 0 {
				s.Status = "infeasible"
				return true
			}
			for i, v := range vals {
				st := s
				if i > 0 {
					st = s.Clone()
				}
				st.PC = append(st.PC, Eq(sl.Len, I64(v)))
				pinned := sl
				pinned.Len = I64(v)
				e.setResult(st, call, mkStr(hexCells(e.bytesOfSlice(st, pinned))))
				if i > 0 {
					e.Pending = append(e.Pending, st)
				}
			}
			s.top()
			return true
		}
		cells := e.bytesOfSlice(s, args[0])
		set(mkStr(hexCells(cells)))
		return true
	case "encoding/hex.Encode":
		src := e.bytesOfSlice(s, args[1])
		dst := args[0].(SliceV)
		cells := hexCells(src)
		if !e.panicIf(s, BVCmp("bvslt", dst.Len, I64(len(cells))), "index out of range (hex.Encode destination too short)", in) {
			return true
		}
		for i, c := range cells {
			e.store(s, PtrV{Obj: dst.Obj, Path: extendPath(dst.Path, elemAt(dst.Off, i))}, c)
		}
		set(I64(len(cells)))
		return true
	case "crypto/sha512.Sum384":
		cells := e.bytesOfSlice(s, args[0])
		e.Stubs["sha384: uninterpreted per-byte fold"] = true
		st := hashFold("sha384", BVUint(0xcbbb9d5dc1059ed8, 64), cells) // same start as a fresh sha512.New384()
		set(cellsToArray(hashOut("sha384", st, 48)))
		return true
	case "crypto/sha256.Sum256":
		cells := e.bytesOfSlice(s, args[0])
		e.Stubs["sha256: uninterpreted per-byte fold"] = true
		st := hashFold("sha256", BVUint(0x6a09e667, 64), cells) // same start as a fresh sha256.New()
		set(cellsToArray(hashOut("sha256", st, 32)))
		return true
	case "(*crypto/sha512.digest).Write", "(*crypto/sha256.digest).Write":
		alg := "sha384"
		if strings.Contains(name, "sha256") {
			alg = "sha256"
		}
		e.Stubs[alg+" (streaming): uninterpreted per-byte fold over the written stream"] = true
		p := args[0].(PtrV)
		cells := e.bytesOfSlice(s, args[1])
		hp := PtrV{Obj: p.Obj, Path: extendPath(extendPath(p.Path, PathElem{Idx: 0}), PathElem{Idx: 0})}
		st := e.load(s, hp).(*Term)
		if st.Sort.Width == 32 {
			st = ZeroExt(32, st)
			e.store(s, hp, Extract(31, 0, hashFold(alg, st, cells)))
		} else {
			e.store(s, hp, hashFold(alg, st, cells))
		}
		set(TupleV{I64(len(cells)), IfaceV{}})
		return true
	case "(*crypto/sha512.digest).Sum", "(*crypto/sha256.digest).Sum":
		alg, n := "sha384", 48
		if strings.Contains(name, "sha256") {
			alg, n = "sha256", 32
		}
		p := args[0].(PtrV)
		hp := PtrV{Obj: p.Obj, Path: extendPath(extendPath(p.Path, PathElem{Idx: 0}), PathElem{Idx: 0})}
		st := e.load(s, hp).(*Term)
		if st.Sort.Width == 32 {
			st = ZeroExt(32, st)
		}
		pre := e.bytesOfSlice(s, args[1])
		set(e.newByteSlice(s, append(append([]*Term(nil), pre...), hashOut(alg, st, n)...)))
		return true
	case "hash/crc32.Checksum":
		cells := e.bytesOfSlice(s, args[0])
		e.Stubs["crc32: uninterpreted per-byte fold"] = true
		if len(cells) == 0 {
			// the checksum of no bytes is 0 for every table: the one value of the fold that is known
			set(BVInt(0, 32))
			return true
		}
		st := hashFold("crc32", BVInt(0xc3c, 64), cells)
		set(UF("verif.crc32.out", BV(32), st))
		return true
	case "hash/crc32.MakeTable":
		set(PtrV{})
		return true
	case "regexp.MustCompile":
		// an opaque compiled expression: a distinct object per call. Matching is not modelled; a
		// harness that needs it cuts the match method and tells the expressions apart by identity.
		pt := fn.Signature.Results().At(0).Type().(*types.Pointer)
		set(PtrV{Obj: e.alloc(s, zeroValue(pt.Elem()))})
		return true
	case "bytes.Equal":
		a, b := args[0].(SliceV), args[1].(SliceV)
		if _, ok := e.uniqueValue(s, a.Len); ok {
			if _, ok := e.uniqueValue(s, b.Len); ok {
				ca, cb := e.bytesOfSlice(s, a), e.bytesOfSlice(s, b)
				if len(ca) != len(cb) {
					set(False)
					return true
				}
				r := True
				for i := range ca {
					r = And(r, Eq(ca[i], cb[i]))
				}
				set(r)
				return true
			}
		}
		// symbolic lengths with few feasible values: lengths equal and every byte below the
		// length equal
		va, vb := e.feasibleValues(s, a.Len, 0, 64), e.feasibleValues(s, b.Len, 0, 64)
		if len(va) == 0 || len(vb) == 0 {
			s.Status = "infeasible"
			return true
		}
		max := va[len(va)-1]
		if m := vb[len(vb)-1]; m < max {
			max = m
		}
		r := Eq(a.Len, b.Len)
		if max > 0 {
			ca, cb := e.sliceElemsN(s, a, max), e.sliceElemsN(s, b, max)
			for i := 0; i < max; i++ {
				r = And(r, Or(BVCmp("bvsle", a.Len, I64(i)), cellEq(ca[i].(*Term), cb[i].(*Term))))
			}
		}
		set(r)
		return true
	case "internal/bytealg.IndexByte", "internal/bytealg.IndexByteString", "bytes.IndexByte", "strings.IndexByte":
		// index of the first cell equal to c, -1 if none (assembly in the library)
		var cells []*Term
		if sl, ok := args[0].(SliceV); ok {
			if _, conc := cint(sl.Len); !conc {
				if _, ok := e.uniqueValue(s, sl.Len); !ok {
					unsupp("IndexByte on a slice of symbolic length")
				}
			}
			cells = e.bytesOfSlice(s, sl)
		} else {
			cells, _ = strCells(args[0])
		}
		c := args[1].(*Term)
		r := BVInt(-1, 64)
		for i := len(cells) - 1; i >= 0; i-- {
			r = Ite(Eq(cells[i], c), I64(i), r)
		}
		set(r)
		return true
	case "strings.Clone", "internal/stringslite.Clone", "strconv.cloneString":
		set(args[0]) // strings are immutable values here; a copy is the same value
		return true
	case "path.Join":
		vs := e.variadic(s, args[0])
		parts := make([]string, len(vs))
		for i, v := range vs {
			parts[i] = strArg(v)
		}
		set(StrV{path.Join(parts...)})
		return true
	case "path.Base":
		set(StrV{path.Base(strArg(args[0]))})
		return true
	case "path.Dir":
		set(StrV{path.Dir(strArg(args[0]))})
		return true
	case "strconv.Itoa":
		if c, ok := cint(args[0].(*Term)); ok {
			set(StrV{strconv.Itoa(c)})
			return true
		}
		unsupp("strconv.Itoa of symbolic value")
	case "strings.HasSuffix", "strings.HasPrefix", "strings.Contains":
		a, okA := args[0].(StrV)
		b, okB := args[1].(StrV)
		if okA && okB {
			switch name {
			case "strings.HasSuffix":
				set(Bool(strings.HasSuffix(a.S, b.S)))
			case "strings.HasPrefix":
				set(Bool(strings.HasPrefix(a.S, b.S)))
			default:
				set(Bool(strings.Contains(a.S, b.S)))
			}
			return true
		}
		if name == "strings.Contains" {
			unsupp("strings.Contains on symbolic strings")
		}
		return false // real bodies handle symbolic cells
	case "strings.Join":
		sl := args[0].(SliceV)
		els := e.sliceElems(s, sl)
		sep, _ := strCells(args[1])
		var cells []*Term
		for i, el := range els {
			if i > 0 {
				cells = append(cells, sep...)
			}
			c, ok := strCells(el)
			if !ok {
				unsupp("strings.Join element %T", el)
			}
			cells = append(cells, c...)
		}
		set(mkStr(cells))
		return true
	case "strings.Split", "strings.TrimSpace", "strings.Replace", "strings.Repeat", "strings.TrimSuffix", "strings.TrimPrefix", "strings.ToLower", "strings.ToUpper":
		return e.concreteStrings(s, call, name, args)
	case "sync/atomic.LoadInt32", "sync/atomic.LoadUint32", "sync/atomic.LoadInt64", "sync/atomic.LoadUint64", "sync/atomic.LoadPointer":
		set(e.load(s, args[0].(PtrV)))
		return true
	case "sync/atomic.StoreInt32", "sync/atomic.StoreUint32", "sync/atomic.StoreInt64", "sync/atomic.StoreUint64":
		e.store(s, args[0].(PtrV), args[1])
		set(nil)
		return true
	case "(*sync.Mutex).Lock", "(*sync.Mutex).Unlock", "(*sync.RWMutex).Lock", "(*sync.RWMutex).Unlock", "(*sync.RWMutex).RLock", "(*sync.RWMutex).RUnlock":
		set(nil)
		return true
	case "(*sync.Once).Do":
		// Once{done atomic.Uint32{_ noCopy; v uint32}; m Mutex}: run f the first time only
		p := args[0].(PtrV)
		if p.Obj == 0 {
			e.panicNow(s, "nil pointer dereference (sync.Once)", in)
			return true
		}
		donep := PtrV{Obj: p.Obj, Path: extendPath(extendPath(p.Path, PathElem{Idx: 0}), PathElem{Idx: 1})}
		dv, ok := e.load(s, donep).(*Term)
		if !ok || dv.Sort.Width != 32 {
			unsupp("sync.Once layout not recognised")
		}
		c, conc := cint(dv)
		if !conc {
			unsupp("sync.Once with symbolic state")
		}
		set(nil)
		if c == 0 {
			e.store(s, donep, BVInt(1, 32))
			fv := args[1].(FuncV)
			e.invokeValue(s, s.top(), nil, fv, nil, in)
		}
		return true
	case "time.Now":
		e.Stubs["time.Now: arbitrary instant (symbolic seconds)"] = true
		sec := s.Fresh("now", BV(64))
		// keep seconds in a sane range so that arithmetic on instants does not wrap
		e.assume(s, And(BVCmp("bvsge", sec, I64(0)), BVCmp("bvslt", sec, BVInt(1<<40, 64))))
		loc := e.globalPtr(s, "time", "localLoc")
		set(&StructV{F: []Value{BVInt(0, 64), BVBin("bvadd", sec, BVInt(62135596800, 64)), loc}})
		return true
	case "time.After":
		e.Stubs["time.After: a channel that may fire"] = true
		id := e.alloc(s, &StructV{})
		set(ChanV{Obj: id})
		return true
	case "time.Sleep":
		set(nil)
		return true
	}
	return false
}

func (e *Engine) globalPtr(s *State, pkg, name string) Value {
	p := e.Prog.ImportedPackage(pkg)
	if p == nil {
		unsupp("package %s not loaded", pkg)
	}
	g, ok := p.Members[name].(*ssa.Global)
	if !ok {
		unsupp("no global %s.%s", pkg, name)
	}
	return e.global(s, g)
}

func cellsToArray(cells []*Term) *ArrayV {
	e := make([]Value, len(cells))
	for i := range e {
		e[i] = cells[i]
	}
	return &ArrayV{e}
}

const hextable = "0123456789abcdef"

// hexOf remembers, for every symbolic lower-case hex digit cell, the nibble it renders, so that
// string equality over hex text reduces to equality of nibbles.
var hexOf = map[*Term]*Term{}

func hexNibble(n *Term, upper bool) *Term {
	// n is a 4-bit value zero-extended to 8 bits
	if n.IsConst() {
		c := hextable[n.Const.Int64()]
		if upper && c >= 'a' {
			c -= 32
		}
		return BVInt(int64(c), 8)
	}
	a := int64('a' - 10)
	if upper {
		a = int64('A' - 10)
	}
	t := Ite(BVCmp("bvult", n, BVInt(10, 8)), BVBin("bvadd", n, BVInt('0', 8)), BVBin("bvadd", n, BVInt(a, 8)))
	if !upper {
		hexOf[t] = n
	}
	return t
}

// cellEq is byte equality with the hex-digit shortcut.
func cellEq(a, b *Term) *Term {
	na, oka := hexOf[a]
	nb, okb := hexOf[b]
	switch {
	case oka && okb:
		return Eq(na, nb)
	case oka && b.IsConst():
		return hexConstEq(na, b)
	case okb && a.IsConst():
		return hexConstEq(nb, a)
	}
	return Eq(a, b)
}

func hexConstEq(n, c *Term) *Term {
	v := c.Const.Int64()
	switch {
	case v >= '0' && v <= '9':
		return Eq(n, BVInt(v-'0', 8))
	case v >= 'a' && v <= 'f':
		return Eq(n, BVInt(v-'a'+10, 8))
	}
	return False
}

func hexCells(cells []*Term) []*Term {
	out := make([]*Term, 0, 2*len(cells))
	for _, c := range cells {
		out = append(out, hexNibble(BVBin("bvlshr", c, BVInt(4, 8)), false), hexNibble(BVBin("bvand", c, BVInt(15, 8)), false))
	}
	return out
}

func (e *Engine) concreteStrings(s *State, call *ssa.Call, name string, args []Value) bool {
	strs := make([]string, 0, len(args))
	for _, a := range args {
		switch x := a.(type) {
		case StrV:
			strs = append(strs, x.S)
		case *Term:
			c, ok := cint(x)
			if !ok {
				unsupp("%s with symbolic integer", name)
			}
			strs = append(strs, strconv.Itoa(c))
		default:
			return false // let the real body run
		}
	}
	switch name {
	case "strings.Split":
		parts := strings.Split(strs[0], strs[1])
		vals := make([]Value, len(parts))
		for i, p := range parts {
			vals[i] = StrV{p}
		}
		id := e.alloc(s, &ArrayV{vals})
		e.setResult(s, call, SliceV{Obj: id, Off: I64(0), Len: I64(len(vals)), Cap: I64(len(vals))})
	case "strings.TrimSpace":
		e.setResult(s, call, StrV{strings.TrimSpace(strs[0])})
	case "strings.Replace":
		n, _ := strconv.Atoi(strs[3])
		e.setResult(s, call, StrV{strings.Replace(strs[0], strs[1], strs[2], n)})
	case "strings.Repeat":
		n, _ := strconv.Atoi(strs[1])
		e.setResult(s, call, StrV{strings.Repeat(strs[0], n)})
	case "strings.TrimSuffix":
		e.setResult(s, call, StrV{strings.TrimSuffix(strs[0], strs[1])})
	case "strings.TrimPrefix":
		e.setResult(s, call, StrV{strings.TrimPrefix(strs[0], strs[1])})
	case "strings.ToLower":
		e.setResult(s, call, StrV{strings.ToLower(strs[0])})
	case "strings.ToUpper":
		e.setResult(s, call, StrV{strings.ToUpper(strs[0])})
	default:
		return false
	}
	return true
}

// variadic unpacks a ...T argument (a slice value) into its elements.
func (e *Engine) variadic(s *State, v Value) []Value {
	sl, ok := v.(SliceV)
	if !ok {
		unsupp("variadic argument is %T", v)
	}
	return e.sliceElems(s, sl)
}

// fmtValue renders one operand for a verb; symbolic integers render as an injective opaque
// token (concrete length 20, cells are uninterpreted functions of the value).
func (e *Engine) fmtValue(s *State, verb byte, v Value) Value {
	if iv, ok := v.(IfaceV); ok {
		if iv.T == nil {
			return StrV{"<nil>"}
		}
		// error / Stringer: text is not modelled
		if _, isPtr := iv.V.(PtrV); isPtr {
			if types.Implements(iv.T, errorType) {
				return StrV{"<error>"}
			}
			return StrV{"<ptr>"}
		}
		if b, ok := iv.T.Underlying().(*types.Basic); ok || true {
			_ = b
			return e.fmtTyped(s, verb, iv.V, iv.T)
		}
	}
	return e.fmtTyped(s, verb, v, nil)
}

var errorType = types.Universe.Lookup("error").Type().Underlying().(*types.Interface)

func (e *Engine) fmtTyped(s *State, verb byte, v Value, t types.Type) Value {
	switch x := v.(type) {
	case StrV:
		if verb == 'q' {
			return StrV{strconv.Quote(x.S)}
		}
		if verb == 'x' {
			return StrV{hex.EncodeToString([]byte(x.S))}
		}
		return x
	case SymStr:
		if verb == 'x' {
			return mkStr(hexCells(x.Cells))
		}
		if verb == 'q' {
			// opaque rendering (escaping is not modelled): quote, one uninterpreted cell per byte, quote
			cells := []*Term{BVInt('"', 8)}
			for _, c := range x.Cells {
				cells = append(cells, UF("verif.fmtq", BV(8), c))
			}
			return mkStr(append(cells, BVInt('"', 8)))
		}
		return x
	case *Term:
		if x.Sort.Kind == 0 {
			if x == True {
				return StrV{"true"}
			}
			if x == False {
				return StrV{"false"}
			}
			return SymStr{opaqueCells("fmtbool", x, 5)}
		}
		sg := false
		if t != nil {
			_, sg, _ = intWidth(t)
		}
		if c, ok := cint(x); ok {
			var u uint64
			if sg {
				u = uint64(int64(c))
			} else {
				u = x.Const.Uint64()
			}
			switch verb {
			case 'x':
				return StrV{strconv.FormatUint(u, 16)}
			case 'X':
				return StrV{strings.ToUpper(strconv.FormatUint(u, 16))}
			case 'c':
				return StrV{string(rune(u))}
			default:
				if sg {
					return StrV{strconv.FormatInt(int64(c), 10)}
				}
				return StrV{strconv.FormatUint(u, 10)}
			}
		}
		return SymStr{opaqueCells("fmtint"+string(verb), x, 20)}
	case SliceV:
		if t != nil {
			if st, ok := t.Underlying().(*types.Slice); ok && isByte(st.Elem()) {
				cells := e.bytesOfSlice(s, x)
				switch verb {
				case 'x':
					return mkStr(hexCells(cells))
				case 's':
					return mkStr(cells)
				}
			}
		}
		return StrV{"<slice>"}
	case *ArrayV:
		if t != nil && types.TypeString(t, nil) == "github.com/google/uuid.UUID" && len(x.E) == 16 {
			// canonical 8-4-4-4-12 lower-case hex, as (uuid.UUID).String() renders it
			var cells []*Term
			for i, b := range x.E {
				if i == 4 || i == 6 || i == 8 || i == 10 {
					cells = append(cells, BVInt('-', 8))
				}
				cells = append(cells, hexCells([]*Term{b.(*Term)})...)
			}
			return mkStr(cells)
		}
		return StrV{"<array>"}
	case *StructV:
		return StrV{"<struct>"}
	case PtrV:
		return StrV{"<ptr>"}
	case UnknownV:
		return StrV{"<unknown>"}
	}
	return StrV{"<value>"}
}

// opaqueCells is an injective rendering of a symbolic scalar: n cells, each an uninterpreted
// function of the value. Two renderings are equal iff (by congruence, at least when) the values
// are equal; an injectivity axiom is not asserted, so unequal values may only be reported equal
// in a counterexample, which replay then refutes.
func opaqueCells(tag string, x *Term, n int) []*Term {
	out := make([]*Term, n)
	for i := range out {
		out[i] = UF("verif."+tag, BV(8), x, BVInt(int64(i), 8))
	}
	return out
}

func (e *Engine) sprintf(s *State, format string, args []Value) Value {
	var cells []*Term
	ai := 0
	for i := 0; i < len(format); i++ {
		c := format[i]
		if c != '%' {
			cells = append(cells, BVInt(int64(c), 8))
			continue
		}
		i++
		if i >= len(format) {
			break
		}
		// flags / width: digits, '.', '-', '+', '#', '0', ' '
		spec := ""
		for i < len(format) && strings.ContainsRune("0123456789.-+# ", rune(format[i])) {
			spec += string(format[i])
			i++
		}
		if i >= len(format) {
			break
		}
		verb := format[i]
		if verb == '%' {
			cells = append(cells, BVInt('%', 8))
			continue
		}
		if ai >= len(args) {
			cells = append(cells, constCells([]byte("%!"+string(verb)+"(MISSING)"))...)
			continue
		}
		v := e.fmtValue(s, verb, args[ai])
		ai++
		vc, ok := strCells(v)
		if !ok {
			unsupp("Sprintf operand renders to %T", v)
		}
		if spec != "" {
			// zero/space padded widths on concrete values only
			if bs, conc := allConcrete(vc); conc {
				w := 0
				zero := strings.HasPrefix(spec, "0")
				fmt.Sscanf(strings.TrimLeft(spec, "0-+# "), "%d", &w)
				str := string(bs)
				for len(str) < w {
					if zero {
						str = "0" + str
					} else if strings.HasPrefix(spec, "-") {
						str += " "
					} else {
						str = " " + str
					}
				}
				vc = constCells([]byte(str))
			} else if strings.TrimLeft(spec, "0123456789") == "" && verb == 'x' {
				// %02x on a symbolic byte: two hex digits
				if t, ok := unwrapScalar(args[ai-1]); ok && t.Sort.Width == 8 && spec == "02" {
					vc = hexCells([]*Term{t})
				} else {
					unsupp("Sprintf width %q on symbolic operand", spec)
				}
			} else {
				unsupp("Sprintf flags %q on symbolic operand", spec)
			}
		}
		cells = append(cells, vc...)
	}
	return mkStr(cells)
}

func unwrapScalar(v Value) (*Term, bool) {
	if iv, ok := v.(IfaceV); ok {
		v = iv.V
	}
	t, ok := v.(*Term)
	return t, ok
}
