package verify

import (
	"bytes"
	"crypto/x509"
	"time"

	epb "github.com/google/gce-tcb-verifier/proto/endorsement"
	spb "github.com/google/go-sev-guest/proto/sevsnp"
	tspb "google.golang.org/protobuf/types/known/timestamppb"
)

// C09: one validator closure (one shared Options value) invoked by two logical threads on two
// different reports. Scheduling points are the library calls (decode, parse, chain check,
// signature check): at each of them any runnable thread may be resumed, and every choice is
// explored. Each call must get the verdict it would get in isolation.

func verifC09(concurrent, preconfigured, fromBlob bool) {
	verifC09x(concurrent, preconfigured, fromBlob, false)
}

func verifC09x(concurrent, preconfigured, fromBlob, fromGetter bool) {
	// a genuine endorsement (decodes, chains, verifies, provenance present) with one symbolic
	// table row and a symbolic SVSM value; the two report measurements and the requested VMSA
	// count are arbitrary
	w := &verifWorld{goldenOK: true, sigOK: true, chainOK: true, parseAlwaysOK: true}
	w.payload = verifNondetBytes("payload", 3)
	w.signature = verifNondetBytes("sig", 2)
	snp := &epb.VMSevSnp{SvsmMeasurement: verifNondetBytes("svsm", 48), Measurements: map[uint32][]byte{verifNondetU32("vmsas"): verifNondetBytes("meas", 48)}}
	w.golden = &epb.VMGoldenMeasurement{Timestamp: &tspb.Timestamp{Seconds: 1}, ClSpec: 1, Cert: []byte{1, 2}, Digest: []byte{3, 4}, SevSnp: snp}
	w.certBytes = w.golden.Cert
	w.cert = &x509.Certificate{}
	w.roots = &x509.CertPool{}
	w.now = time.Unix(int64(verifNondetU32("now")), 0)
	vw = w
	e := &epb.VMLaunchEndorsement{SerializedUefiGolden: w.payload, Signature: w.signature}
	vmsas := verifNondetU32("expected_vmsas")
	opts := &Options{RootsOfTrust: w.roots, Now: w.now, Endorsement: e, SNP: &SNPOptions{ExpectedLaunchVMSAs: vmsas}}
	var pre []byte
	if preconfigured {
		// the caller also uses this options value elsewhere and has a measurement configured in it
		opts.SNP.Measurement = verifNondetBytes("preconfigured", 48)
		pre = append([]byte(nil), opts.SNP.Measurement...)
	}
	var blob []byte
	if fromBlob {
		// the endorsement arrives serialized with each report (certificate table entry) instead of
		// pre-parsed in the options
		w.outerBytes = verifNondetBytes("outer", 2)
		w.outer = e
		opts.Endorsement = nil
		blob = w.outerBytes
	}
	if fromGetter {
		// nothing travels with the reports and nothing is pre-parsed: the validator fetches
		w.outerBytes = verifNondetBytes("outer", 2)
		w.outer = e
		opts.Endorsement = nil
		opts.Getter = &verifGetter{blob: w.outerBytes}
	}
	sharedEndorsement := opts.Endorsement
	validate := SNPValidateFunc(opts)
	ma := verifNondetBytes("meas_a", 48)
	mb := verifNondetBytes("meas_b", 48)
	attA := &spb.Attestation{Report: &spb.Report{Measurement: ma}}
	attB := &spb.Attestation{Report: &spb.Report{Measurement: mb}}
	var errA, errB error
	doneA, doneB := false, false
	if concurrent {
		w.yield = verifYield
		verifSpawn(func() { errA = validate(attA, blob); doneA = true })
		verifSpawn(func() { errB = validate(attB, blob); doneB = true })
		verifJoinAll()
		w.yield = nil
	} else {
		errA = validate(attA, blob)
		doneA = true
		errB = validate(attB, blob)
		doneB = true
	}
	verifAssert(doneA && doneB, "both validations completed")
	verifAssert(opts.Endorsement == sharedEndorsement, "the endorsement field of the shared options is not replaced by a validation")
	if preconfigured {
		verifAssert(bytes.Equal(opts.SNP.Measurement, pre), "the options value the caller configured is not changed by validations")
	}
	// isolated verdicts
	wantA := verifAllowed(w.golden, vmsas, ma) && w.golden.SevSnp != nil && !verifProvenanceMissing(w)
	wantB := verifAllowed(w.golden, vmsas, mb) && w.golden.SevSnp != nil && !verifProvenanceMissing(w)
	_ = wantA
	_ = wantB
	if errA == nil {
		verifReach("a-accepted")
		verifAssert(verifAllowed(w.golden, vmsas, ma), "report A is accepted only if its own measurement is endorsed")
	}
	if errB == nil {
		verifReach("b-accepted")
		verifAssert(verifAllowed(w.golden, vmsas, mb), "report B is accepted only if its own measurement is endorsed")
	}
	// isolation: each call gets the verdict it gets alone (the endorsement is genuine, so the
	// verdict in isolation is exactly the measurement comparison)
	isoA := SNP(w.golden, &SNPOptions{Measurement: ma, ExpectedLaunchVMSAs: vmsas}) == nil
	isoB := SNP(w.golden, &SNPOptions{Measurement: mb, ExpectedLaunchVMSAs: vmsas}) == nil
	verifAssert((errA == nil) == isoA, "call A gets the verdict it would get in isolation")
	verifAssert((errB == nil) == isoB, "call B gets the verdict it would get in isolation")
	verifReach("end")
}

func verifProvenanceMissing(w *verifWorld) bool { return false }

func VerifC09Successive()      { verifC09(false, false, false) }
func VerifC09Concurrent()      { verifC09(true, false, false) }
func VerifC09SuccessivePre()   { verifC09(false, true, false) }
func VerifC09ConcurrentPre()   { verifC09(true, true, false) }
func VerifC09SuccessiveBlob()  { verifC09(false, false, true) }
func VerifC09ConcurrentBlob()  { verifC09(true, false, true) }
func VerifC09SuccessiveFetch() { verifC09x(false, false, false, true) }
func VerifC09ConcurrentFetch() { verifC09x(true, false, false, true) }
