package gcetcbendorsement

import (
	"bytes"
	"context"
	"google.golang.org/protobuf/proto"

	epb "github.com/google/gce-tcb-verifier/proto/endorsement"
	cpb "github.com/google/go-sev-guest/proto/check"
	spb "github.com/google/go-sev-guest/proto/sevsnp"
	tcpb "github.com/google/go-tdx-guest/proto/checkconfig"
	"google.golang.org/protobuf/types/known/wrapperspb"
)

// C17: policy derivation never weakens or mutates the caller's policy. The base policy is
// arbitrary (every scalar symbolic, byte fields empty or 2 symbolic bytes, sub-messages absent or
// present), the endorsement's SEV-SNP part is arbitrary, VMSA count and flags are arbitrary.

func verifArbitrarySevPolicy() *cpb.Policy {
	p := &cpb.Policy{
		MinimumGuestSvn: verifNondetU32("b_min_svn"), Policy: verifNondetU64("b_policy"),
		FamilyId: verifOpt("b_family_len", verifNondetBytes("b_family", 2)), ImageId: verifOpt("b_image_len", verifNondetBytes("b_image", 2)),
		MinimumTcb: verifNondetU64("b_min_tcb"), MinimumLaunchTcb: verifNondetU64("b_min_ltcb"), RequireAuthorKey: verifNondetBool("b_req_author"),
		ReportData: verifOpt("b_rd_len", verifNondetBytes("b_rd", 2)), Measurement: verifOpt("b_meas_len", verifNondetBytes("b_meas", 2)),
		HostData: verifOpt("b_hd_len", verifNondetBytes("b_hd", 2)), ReportId: verifOpt("b_rid_len", verifNondetBytes("b_rid", 2)),
		ReportIdMa: verifOpt("b_ridma_len", verifNondetBytes("b_ridma", 2)), ChipId: verifOpt("b_chip_len", verifNondetBytes("b_chip", 2)),
		MinimumBuild: verifNondetU32("b_min_build"), MinimumVersion: "1.2", PermitProvisionalFirmware: verifNondetBool("b_ppf"),
		RequireIdBlock: verifNondetBool("b_req_id"),
	}
	if verifNondetBool("b_has_keys") {
		p.TrustedIdKeys = [][]byte{verifNondetBytes("b_idkey", 1)}
		p.TrustedAuthorKeys = [][]byte{verifNondetBytes("b_authkey", 1)}
		p.TrustedIdKeyHashes = [][]byte{verifNondetBytes("b_idhash", 1)}
	}
	if verifNondetBool("b_has_wrappers") {
		p.Vmpl = &wrapperspb.UInt32Value{Value: verifNondetU32("b_vmpl")}
		p.PlatformInfo = &wrapperspb.UInt64Value{Value: verifNondetU64("b_pinfo")}
		p.Product = &spb.SevProduct{Name: spb.SevProduct_SEV_PRODUCT_MILAN, MachineStepping: &wrapperspb.UInt32Value{Value: verifNondetU32("b_step")}}
	}
	return p
}

func verifKeysEq(a, b [][]byte) bool {
	if len(a) != len(b) {
		return false
	}
	ok := true
	for i := range a {
		ok = ok && bytes.Equal(a[i], b[i])
	}
	return ok
}

// verifC17Sev: blocks = number of PEM blocks in the endorsement's CA bundle (0, 1, 2 or 3).
func verifC17Sev(blocks int, withBase bool) {
	w := verifNewWorld(1, false)
	w.goldenOK = true
	verifAssume(w.golden.SevSnp != nil, "endorsement carries SEV-SNP data")
	snp := w.golden.SevSnp
	snp.Policy = verifNondetU64("e_policy")
	snp.Svn = verifNondetU32("e_svn")
	verifPemBlocks = nil
	for i := 0; i < blocks; i++ {
		typ := "CERTIFICATE"
		if verifNondetBool("pem_wrong_type") {
			typ = "PRIVATE KEY"
		}
		verifPemBlocks = append(verifPemBlocks, [2]string{typ, string([]byte{byte(0xA0 + i)})})
	}
	trailing := verifNondetBool("pem_trailing_garbage")
	verifPemBase = make([]byte, 4*blocks)
	if trailing {
		verifPemBase = append(verifPemBase, 7, 7)
	}
	snp.CaBundle = verifPemBase
	e := &epb.VMLaunchEndorsement{SerializedUefiGolden: w.payload, Signature: w.signature}
	opts := &SevPolicyOptions{LaunchVmsas: verifNondetU32("launch_vmsas"), Overwrite: verifNondetBool("overwrite"), AllowUnspecifiedVmsas: verifNondetBool("allow_unspecified")}
	var base, snapshot *cpb.Policy
	if withBase {
		base = verifArbitrarySevPolicy()
		snapshot = verifDeepCopy(base).(*cpb.Policy)
		opts.Base = base
	}
	res, err := SevPolicy(context.Background(), e, opts)
	verifObserve("ok", err == nil)
	if withBase {
		verifAssert(verifDeepEqual(base, snapshot), "the caller's base policy is unchanged")
	}
	if err != nil {
		verifReach("failed")
		verifReach("end")
		return
	}
	verifReach("derived")
	verifAssert(res != nil && res != base, "the result is a new policy object")
	meas, listed := snp.Measurements[opts.LaunchVmsas]
	if opts.LaunchVmsas != 0 {
		verifAssert(listed && bytes.Equal(res.Measurement, meas), "result measurement is the endorsement's value for the requested VMSA count")
	}
	if withBase {
		b := snapshot
		if !opts.Overwrite {
			verifAssert(b.Policy == 0 || res.Policy == b.Policy, "without overwrite a guest policy set in the base survives")
			verifAssert(len(b.Measurement) == 0 || bytes.Equal(res.Measurement, b.Measurement), "without overwrite a measurement set in the base survives")
			verifAssert(b.MinimumGuestSvn == 0 || snp.Svn >= b.MinimumGuestSvn, "without overwrite the base's minimum guest SVN is not undercut by the endorsement")
		}
		verifAssert(res.Policy == b.Policy || res.Policy == snp.Policy, "result guest policy is the base's or the endorsement's")
		if opts.LaunchVmsas == 0 {
			verifAssert(bytes.Equal(res.Measurement, b.Measurement), "unspecified VMSA count leaves the measurement as in the base")
		}
		// unrelated fields carried over untouched
		verifAssert(res.MinimumGuestSvn == b.MinimumGuestSvn && bytes.Equal(res.FamilyId, b.FamilyId) && bytes.Equal(res.ImageId, b.ImageId) &&
			res.MinimumTcb == b.MinimumTcb && res.MinimumLaunchTcb == b.MinimumLaunchTcb && res.RequireAuthorKey == b.RequireAuthorKey &&
			bytes.Equal(res.ReportData, b.ReportData) && bytes.Equal(res.HostData, b.HostData) && bytes.Equal(res.ReportId, b.ReportId) &&
			bytes.Equal(res.ReportIdMa, b.ReportIdMa) && bytes.Equal(res.ChipId, b.ChipId) && res.MinimumBuild == b.MinimumBuild &&
			res.MinimumVersion == b.MinimumVersion && res.PermitProvisionalFirmware == b.PermitProvisionalFirmware && res.RequireIdBlock == b.RequireIdBlock,
			"unrelated scalar and byte fields of the base are carried over")
		verifAssert(verifDeepEqual(res.Vmpl, b.Vmpl) && verifDeepEqual(res.PlatformInfo, b.PlatformInfo) && verifDeepEqual(res.Product, b.Product) &&
			verifKeysEq(res.TrustedIdKeyHashes, b.TrustedIdKeyHashes) && verifKeysEq(res.TrustedAuthorKeyHashes, b.TrustedAuthorKeyHashes),
			"unrelated sub-messages and key-hash lists of the base are carried over")
		// trusted keys = base's followed by the bundle's blocks
		nb := len(b.TrustedIdKeys)
		verifAssert(len(res.TrustedIdKeys) >= nb && verifKeysEq(res.TrustedIdKeys[:nb], b.TrustedIdKeys), "base identity keys are kept, in order")
		na := len(b.TrustedAuthorKeys)
		verifAssert(len(res.TrustedAuthorKeys) >= na && verifKeysEq(res.TrustedAuthorKeys[:na], b.TrustedAuthorKeys), "base author keys are kept, in order")
		if blocks >= 1 {
			verifAssert(len(res.TrustedIdKeys) == nb+1 && bytes.Equal(res.TrustedIdKeys[nb], []byte{0xA0}), "the bundle's first block is appended as identity key")
		} else {
			verifAssert(len(res.TrustedIdKeys) == nb && len(res.TrustedAuthorKeys) == na, "no bundle: key lists unchanged")
		}
		if blocks >= 2 {
			verifAssert(len(res.TrustedAuthorKeys) == na+1 && bytes.Equal(res.TrustedAuthorKeys[na], []byte{0xA1}), "the bundle's second block is appended as author key")
		}
	} else {
		// With overwrite the derivation deliberately keeps the guest policy it starts from (pinned by
		// the repository's own "policy overwrite" test); without a base that is the built-in default.
		def, _ := SevPolicy(context.Background(), &epb.VMLaunchEndorsement{SerializedUefiGolden: w.payload}, &SevPolicyOptions{AllowUnspecifiedVmsas: true, Overwrite: true})
		verifAssert(res.Policy == snp.Policy || (opts.Overwrite && def != nil && res.Policy == def.Policy), "without a base the guest policy is the endorsement's (or, with overwrite, the built-in default)")
	}
	verifAssert(blocks <= 2 && !trailing, "a CA bundle is accepted only as one or two blocks with nothing trailing")
	for i := 0; i < blocks && i < 2; i++ {
		verifAssert(verifPemBlocks[i][0] == "CERTIFICATE", "accepted bundle blocks are certificates")
	}
	verifReach("end")
}

func VerifC17SevNoBase0() { verifC17Sev(0, false) }
func VerifC17SevBase0()   { verifC17Sev(0, true) }
func VerifC17SevBase1()   { verifC17Sev(1, true) }
func VerifC17SevBase2()   { verifC17Sev(2, true) }
func VerifC17SevBase3()   { verifC17Sev(3, true) }

func verifC17Tdx(rows int, withBase bool) {
	verifTdxRows = rows
	w := verifNewWorld(0, false)
	w.goldenOK = true
	verifAssume(w.golden.Tdx != nil, "endorsement carries TDX data")
	e := &epb.VMLaunchEndorsement{SerializedUefiGolden: w.payload, Signature: w.signature}
	opts := &TdxPolicyOptions{RAMGiB: verifNondetInt("ram_gib_requested"), Overwrite: verifNondetBool("overwrite")}
	var base, snapshot *tcpb.Policy
	if withBase {
		base = &tcpb.Policy{}
		if verifNondetBool("b_has_header") {
			base.HeaderPolicy = &tcpb.HeaderPolicy{MinimumQeSvn: verifNondetU32("b_qesvn"), QeVendorId: verifOpt("b_qev_len", verifNondetBytes("b_qev", 2))}
		}
		if verifNondetBool("b_has_body") {
			base.TdQuoteBodyPolicy = &tcpb.TDQuoteBodyPolicy{MrSeam: verifOpt("b_seam_len", verifNondetBytes("b_seam", 2)), MrTd: verifOpt("b_mrtd_len", verifNondetBytes("b_mrtd", 2)),
				ReportData: verifOpt("b_rd_len", verifNondetBytes("b_rd", 2))}
			if verifNondetBool("b_has_any") {
				base.TdQuoteBodyPolicy.AnyMrTd = [][]byte{verifNondetBytes("b_any", 2)}
			}
		}
		snapshot = verifDeepCopy(base).(*tcpb.Policy)
		opts.Base = base
	}
	res, err := TdxPolicy(context.Background(), e, opts)
	verifObserve("ok", err == nil)
	if withBase {
		verifAssert(verifDeepEqual(base, snapshot), "the caller's base TDX policy is unchanged")
	}
	if err != nil {
		verifReach("failed")
		verifReach("end")
		return
	}
	verifReach("derived")
	verifAssert(res != nil && res != base && res.TdQuoteBodyPolicy != nil, "the result is a new policy with a quote-body part")
	got := res.TdQuoteBodyPolicy.AnyMrTd
	verifAssert(len(got) > 0, "derived MRTD allow-list is never empty (empty means unchecked)")
	for _, a := range got {
		in := false
		for _, r := range w.golden.Tdx.Measurements {
			if (opts.RAMGiB == 0 || uint64(r.RamGib) == uint64(opts.RAMGiB)) && bytes.Equal(r.Mrtd, a) {
				in = true
			}
		}
		verifAssert(in, "every allowed MRTD is an endorsed value for the requested RAM size")
	}
	if withBase {
		b := snapshot
		if !opts.Overwrite && b.TdQuoteBodyPolicy != nil {
			verifAssert(b.TdQuoteBodyPolicy.AnyMrTd == nil, "without overwrite an MRTD allow-list set in the base is not replaced")
		}
		verifAssert(proto.Equal(res.HeaderPolicy, b.HeaderPolicy), "the header part of the base is carried over")
		if b.TdQuoteBodyPolicy != nil {
			verifAssert(bytes.Equal(res.TdQuoteBodyPolicy.MrSeam, b.TdQuoteBodyPolicy.MrSeam) && bytes.Equal(res.TdQuoteBodyPolicy.MrTd, b.TdQuoteBodyPolicy.MrTd) &&
				bytes.Equal(res.TdQuoteBodyPolicy.ReportData, b.TdQuoteBodyPolicy.ReportData), "unrelated quote-body fields of the base are carried over")
		}
	}
	verifReach("end")
}

func VerifC17TdxNoBase1() { verifC17Tdx(1, false) }
func VerifC17TdxBase1()   { verifC17Tdx(1, true) }
func VerifC17TdxBase2()   { verifC17Tdx(2, true) }

func VerifC17TdxBase3() { verifC17Tdx(3, true) }
