package gcsca

import "math/big"

func newBig() *big.Int { return new(big.Int) }
func bigOne() *big.Int { return big.NewInt(1) }

