package main

// Solver portfolio. Primary: one long-lived `z3 -in` whose assertion stack follows the path being
// explored (one push per path-condition conjunct). Fallback when the primary answers unknown or
// times out: one-shot runs of cvc5 (bit-blasting), cvc5 --solve-bv-as-int=sum and z3-new in
// parallel, first definitive answer wins. `unknown` is never read as sat or unsat by callers.

import (
	"bufio"
	"bytes"
	"context"
	"fmt"
	"io"
	"os"
	"os/exec"
	"strings"
	"sync"
	"time"
)

type Solver struct {
	cmd       *exec.Cmd
	in        io.WriteCloser
	w         *bufio.Writer
	out       *bufio.Reader
	defined   map[int]bool // term ids already defined in the incremental solver
	declVars  map[int]bool
	declUFs   map[string]bool
	stack     []*Term // asserted path condition, one push level each
	cache     map[string]string
	Pref      string // "z3" (default) or "cvc5int": which back end is asked first
	TimeoutMs int    // primary per-query timeout
	FallbackS int    // fallback per-query timeout (seconds)
	CrossAll  bool

	Queries, CacheHits, Fallbacks, Unknowns int
	Time                                    time.Duration
	ByBackend                               map[string]int
	Log                                     io.Writer
	SlowDir                                 string
}

const zeroArrDef = "(define-fun verif.zeroarr () (Array (_ BitVec 64) (_ BitVec 8)) ((as const (Array (_ BitVec 64) (_ BitVec 8))) #x00))"

func NewSolver(pref string, timeoutMs, fallbackS int) *Solver {
	s := &Solver{cache: map[string]string{}, Pref: pref, TimeoutMs: timeoutMs, FallbackS: fallbackS, ByBackend: map[string]int{}}
	s.start()
	return s
}

func (s *Solver) start() {
	cmd := exec.Command(z3Bin(), "-in")
	in, _ := cmd.StdinPipe()
	outp, _ := cmd.StdoutPipe()
	cmd.Stderr = cmd.Stdout
	if err := cmd.Start(); err != nil {
		panic(err)
	}
	s.cmd, s.in, s.out = cmd, in, bufio.NewReaderSize(outp, 1<<20)
	s.w = bufio.NewWriterSize(in, 1<<20)
	s.defined, s.declVars, s.declUFs = map[int]bool{}, map[int]bool{}, map[string]bool{}
	s.stack = nil
	s.send("(set-option :print-success false)")
	s.send("(set-option :global-declarations true)")
	s.send(fmt.Sprintf("(set-option :timeout %d)", s.TimeoutMs))
	s.send("(set-logic ALL)")
	s.send(zeroArrDef)
}

func (s *Solver) Close() {
	if s.cmd != nil {
		s.in.Close()
		s.cmd.Process.Kill()
		s.cmd.Wait()
		s.cmd = nil
	}
}

func (s *Solver) send(line string) {
	if s.Log != nil {
		fmt.Fprintln(s.Log, line)
	}
	s.w.WriteString(line)
	s.w.WriteByte('\n')
}

func (s *Solver) readLine() string {
	s.w.Flush()
	l, err := s.out.ReadString('\n')
	if err != nil {
		panic("solver died: " + err.Error())
	}
	return strings.TrimSpace(l)
}

// define makes sure every compound sub-term of t has a definition in the incremental solver.
func (s *Solver) define(t *Term) {
	if !t.compound() {
		if t.Op == "var" && !s.declVars[t.ID] && t != zeroArr {
			s.declVars[t.ID] = true
			s.send(fmt.Sprintf("(declare-const %s %s)", t.Name, t.Sort))
		}
		return
	}
	if s.defined[t.ID] {
		return
	}
	// iterative post-order to avoid deep recursion on long ite chains
	type fr struct {
		t *Term
		i int
	}
	st := []fr{{t, 0}}
	for len(st) > 0 {
		top := &st[len(st)-1]
		if top.i < len(top.t.Args) {
			a := top.t.Args[top.i]
			top.i++
			if a.compound() {
				if !s.defined[a.ID] {
					st = append(st, fr{a, 0})
				}
			} else if a.Op == "var" && !s.declVars[a.ID] && a != zeroArr {
				s.declVars[a.ID] = true
				s.send(fmt.Sprintf("(declare-const %s %s)", a.Name, a.Sort))
			}
			continue
		}
		x := top.t
		st = st[:len(st)-1]
		if s.defined[x.ID] {
			continue
		}
		if x.Op == "uf" && !s.declUFs[x.Name] {
			s.declUFs[x.Name] = true
			s.send(ufDecl(x))
		}
		s.defined[x.ID] = true
		s.send(fmt.Sprintf("(define-fun t%d () %s %s)", x.ID, x.Sort, x.body()))
	}
}

// sync makes the solver's assertion stack equal to pc.
func (s *Solver) sync(pc []*Term) {
	k := 0
	for k < len(s.stack) && k < len(pc) && s.stack[k] == pc[k] {
		k++
	}
	if n := len(s.stack) - k; n > 0 {
		s.send(fmt.Sprintf("(pop %d)", n))
		s.stack = s.stack[:k]
	}
	for _, c := range pc[k:] {
		s.define(c)
		s.send("(push 1)")
		s.send("(assert " + c.ref() + ")")
		s.stack = append(s.stack, c)
	}
}

func cacheKey(pc []*Term, extra *Term) string {
	var sb strings.Builder
	for _, c := range pc {
		fmt.Fprintf(&sb, "%d,", c.ID)
	}
	if extra != nil {
		fmt.Fprintf(&sb, "|%d", extra.ID)
	}
	return sb.String()
}

// Check decides satisfiability of pc ∧ extra: "sat", "unsat" or "unknown".
func (s *Solver) Check(pc []*Term, extra *Term) string {
	if extra == False {
		return "unsat"
	}
	for _, c := range pc {
		if c == False {
			return "unsat"
		}
	}
	if extra == True {
		extra = nil
	}
	k := cacheKey(pc, extra)
	if r, ok := s.cache[k]; ok {
		s.CacheHits++
		return r
	}
	t0 := time.Now()
	s.Queries++
	var r string
	if s.Pref == "cvc5int" {
		r = s.race(s.script(pc, extra, nil, nil), false, nil, "cvc5int")
		if r == "unknown" {
			s.Fallbacks++
			r = s.primary(pc, extra)
		}
		if r == "unknown" {
			r = s.fallback(pc, extra, nil, nil)
		}
	} else {
		r = s.primary(pc, extra)
		if r == "unknown" {
			s.Fallbacks++
			r = s.fallback(pc, extra, nil, nil)
		}
	}
	if r == "unknown" {
		s.Unknowns++
	}
	d := time.Since(t0)
	s.Time += d
	if (d > 5*time.Second || r == "unknown") && s.SlowDir != "" {
		os.MkdirAll(s.SlowDir, 0755)
		os.WriteFile(fmt.Sprintf("%s/q%d-%s.smt2", s.SlowDir, s.Queries, r), []byte(s.script(pc, extra, nil, nil)), 0644)
	}
	s.cache[k] = r
	return r
}

func (s *Solver) primary(pc []*Term, extra *Term) string {
	s.sync(pc)
	if extra != nil {
		s.define(extra)
		s.send("(push 1)")
		s.send("(assert " + extra.ref() + ")")
	}
	s.send("(check-sat)")
	r := s.readResult()
	if extra != nil {
		s.send("(pop 1)")
	}
	s.ByBackend["z3:"+r]++
	return r
}

func (s *Solver) readResult() string {
	r := s.readLine()
	bad := false
	for strings.HasPrefix(r, "(error") || strings.HasPrefix(r, "WARNING") || r == "" {
		if strings.HasPrefix(r, "(error") {
			fmt.Fprintln(os.Stderr, "SOLVER ERROR:", r)
			bad = true
		}
		r = s.readLine()
	}
	if bad || (r != "sat" && r != "unsat") {
		if r != "unknown" && r != "sat" && r != "unsat" {
			fmt.Fprintln(os.Stderr, "SOLVER ODD OUTPUT:", r)
		}
		return "unknown"
	}
	return r
}

// script renders a self-contained SMT-LIB2 script for one-shot solvers.
func (s *Solver) script(pc []*Term, extra *Term, getVals []*Term, getSel [][2]*Term) string {
	roots := append([]*Term(nil), pc...)
	if extra != nil {
		roots = append(roots, extra)
	}
	for _, g := range getSel {
		roots = append(roots, g[0], g[1])
	}
	defs, vars, ufs := closure(roots)
	var sb strings.Builder
	sb.WriteString("(set-logic ALL)\n")
	needZero := false
	for _, v := range vars {
		if v == zeroArr {
			needZero = true
			continue
		}
		fmt.Fprintf(&sb, "(declare-const %s %s)\n", v.Name, v.Sort)
	}
	if needZero {
		sb.WriteString(zeroArrDef + "\n")
	}
	for _, u := range ufs {
		sb.WriteString(ufDecl(u) + "\n")
	}
	for _, d := range defs {
		fmt.Fprintf(&sb, "(define-fun t%d () %s %s)\n", d.ID, d.Sort, d.body())
	}
	for _, c := range pc {
		if c != True {
			fmt.Fprintf(&sb, "(assert %s)\n", c.ref())
		}
	}
	if extra != nil {
		fmt.Fprintf(&sb, "(assert %s)\n", extra.ref())
	}
	sb.WriteString("(check-sat)\n")
	inVars := map[int]bool{}
	for _, v := range vars {
		inVars[v.ID] = true
	}
	for _, v := range getVals {
		if v.Sort.Kind != 2 && inVars[v.ID] {
			fmt.Fprintf(&sb, "(get-value (%s))\n", v.Name)
		}
	}
	for _, g := range getSel {
		fmt.Fprintf(&sb, "(get-value ((select %s %s)))\n", g[0].ref(), g[1].ref())
	}
	return sb.String()
}

type backend struct {
	name string
	argv []string
}

func (s *Solver) backends(model bool) []backend {
	t := s.FallbackS
	bs := []backend{
		{"cvc5int", []string{"cvc5", "--lang", "smt2", "--solve-bv-as-int=sum", fmt.Sprintf("--tlimit=%d", t*1000)}},
		{"cvc5", []string{"cvc5", "--lang", "smt2", fmt.Sprintf("--tlimit=%d", t*1000)}},
		{"z3new", []string{"z3-new", "-in", fmt.Sprintf("-T:%d", t)}},
	}
	if model {
		for i := range bs {
			if strings.HasPrefix(bs[i].name, "cvc5") {
				bs[i].argv = append(bs[i].argv, "--produce-models")
			}
		}
	}
	return bs
}

// fallback races the one-shot back ends. If wantModel, returns the get-value lines in *outLines.
func (s *Solver) fallback(pc []*Term, extra *Term, getVals []*Term, outLines *[]string) string {
	return s.race(s.script(pc, extra, getVals, nil), getVals != nil, outLines, "")
}

func (s *Solver) race(script string, model bool, outLines *[]string, only string) string {
	ctx, cancel := context.WithCancel(context.Background())
	defer cancel()
	type res struct {
		name  string
		r     string
		lines []string
	}
	bs := s.backends(model)
	ch := make(chan res, len(bs))
	var wg sync.WaitGroup
	n := 0
	for _, b := range bs {
		if only != "" && b.name != only {
			continue
		}
		n++
		wg.Add(1)
		go func(b backend) {
			defer wg.Done()
			cmd := exec.CommandContext(ctx, b.argv[0], b.argv[1:]...)
			cmd.Stdin = strings.NewReader(script)
			var out bytes.Buffer
			cmd.Stdout = &out
			cmd.Stderr = &out
			cmd.Run()
			lines := strings.Split(strings.TrimSpace(out.String()), "\n")
			r := "unknown"
			if len(lines) > 0 && (lines[0] == "sat" || lines[0] == "unsat") {
				r = lines[0]
			}
			for _, l := range lines {
				if strings.HasPrefix(l, "(error") {
					r = "unknown"
				}
			}
			ch <- res{b.name, r, lines}
		}(b)
	}
	final := "unknown"
	for i := 0; i < n; i++ {
		x := <-ch
		if x.r != "unknown" {
			final = x.r
			s.ByBackend[x.name+":"+x.r]++
			if outLines != nil {
				*outLines = x.lines[1:]
			}
			break
		}
	}
	cancel()
	go func() { wg.Wait() }()
	return final
}

// CrossCheck re-decides pc ∧ extra with a named one-shot back end (used for final assertions).
func (s *Solver) CrossCheck(pc []*Term, extra *Term, backendName string) string {
	return s.race(s.script(pc, extra, nil, nil), false, nil, backendName)
}

// Model returns values for the given variables and array cells under pc ∧ extra (must be sat).
// Values are returned as SMT-LIB literals keyed by variable name; array cells keyed "arr[idx]".
func (s *Solver) Model(pc []*Term, extra *Term, vars []*Term, sels [][2]*Term, evals ...*Term) (map[string]string, bool) {
	res := map[string]string{}
	if s.Pref != "cvc5int" {
		s.sync(pc)
		if extra != nil && extra != True {
			s.define(extra)
			s.send("(push 1)")
			s.send("(assert " + extra.ref() + ")")
		}
		for _, g := range sels {
			s.define(g[0])
			s.define(g[1])
		}
		s.send("(check-sat)")
		r := s.readResult()
		ok := r == "sat"
		if ok {
			for _, v := range vars {
				if v.Sort.Kind == 2 || !s.declVars[v.ID] {
					continue
				}
				s.send("(get-value (" + v.Name + "))")
				res[v.Name] = parseGetValue(s.readLine())
			}
			for _, g := range sels {
				s.send(fmt.Sprintf("(get-value ((select %s %s)))", g[0].ref(), g[1].ref()))
				res[g[0].ref()+"["+g[1].ref()+"]"] = parseGetValue(s.readLine())
			}
			for _, t := range evals {
				s.define(t)
				s.send(fmt.Sprintf("(get-value (%s))", t.ref()))
				res[fmt.Sprintf("eval:%d", t.ID)] = parseGetValue(s.readLine())
			}
		}
		if extra != nil && extra != True {
			s.send("(pop 1)")
		}
		if ok {
			return res, true
		}
	}
	var lines []string
	if len(evals) > 0 {
		return nil, false
	}
	script := s.script(pc, extra, vars, sels)
	if s.race(script, true, &lines, "") != "sat" {
		return nil, false
	}
	// one-shot output: one ((name value)) per line in the order requested
	_, used, _ := closure(append(append([]*Term(nil), pc...), extraOrTrue(extra)))
	inUse := map[int]bool{}
	for _, u := range used {
		inUse[u.ID] = true
	}
	i := 0
	for _, v := range vars {
		if v.Sort.Kind == 2 || !inUse[v.ID] {
			continue
		}
		if i < len(lines) {
			res[v.Name] = parseGetValue(lines[i])
		}
		i++
	}
	for _, g := range sels {
		if i < len(lines) {
			res[g[0].ref()+"["+g[1].ref()+"]"] = parseGetValue(lines[i])
		}
		i++
	}
	return res, true
}

func extraOrTrue(t *Term) *Term {
	if t == nil {
		return True
	}
	return t
}

// parseGetValue extracts the value from "((name value))".
func parseGetValue(l string) string {
	l = strings.TrimSpace(l)
	l = strings.TrimPrefix(l, "((")
	l = strings.TrimSuffix(l, "))")
	// name may itself be an s-expression such as (select a i)
	depth := 0
	for i := 0; i < len(l); i++ {
		switch l[i] {
		case '(':
			depth++
		case ')':
			depth--
		case ' ':
			if depth == 0 {
				return strings.TrimSpace(l[i+1:])
			}
		}
	}
	return l
}

// litToUint parses #x.., #b.., (_ bvN w), true/false.
func litToUint(v string) (uint64, bool) {
	v = strings.TrimSpace(v)
	switch {
	case v == "true":
		return 1, true
	case v == "false":
		return 0, true
	case strings.HasPrefix(v, "#x"):
		var x uint64
		_, err := fmt.Sscanf(v[2:], "%x", &x)
		return x, err == nil
	case strings.HasPrefix(v, "#b"):
		var x uint64
		for _, c := range v[2:] {
			x = x<<1 | uint64(c-'0')
		}
		return x, true
	case strings.HasPrefix(v, "(_ bv"):
		var x uint64
		var w int
		_, err := fmt.Sscanf(v, "(_ bv%d %d)", &x, &w)
		return x, err == nil
	}
	return 0, false
}

// Check2 decides pc∧a and pc∧b (b = ¬a at branches). If the first is unsat the second is taken
// to be sat (the path condition itself is kept satisfiable by construction). With a one-shot
// primary back end the two queries run concurrently.
func (s *Solver) Check2(pc []*Term, a, b *Term) (string, string) {
	if s.Pref == "cvc5int" {
		ka, kb := cacheKey(pc, a), cacheKey(pc, b)
		_, hasA := s.cache[ka]
		_, hasB := s.cache[kb]
		if !hasA && !hasB && a != True && a != False && b != True && b != False {
			t0 := time.Now()
			var ra, rb string
			var wg sync.WaitGroup
			wg.Add(2)
			sa, sb := s.script(pc, a, nil, nil), s.script(pc, b, nil, nil)
			go func() { defer wg.Done(); ra = s.raceQuiet(sa, "cvc5int") }()
			go func() { defer wg.Done(); rb = s.raceQuiet(sb, "cvc5int") }()
			wg.Wait()
			s.Queries += 2
			s.Time += time.Since(t0)
			if ra != "unknown" {
				s.cache[ka] = ra
				s.ByBackend["cvc5int:"+ra]++
			}
			if rb != "unknown" {
				s.cache[kb] = rb
				s.ByBackend["cvc5int:"+rb]++
			}
		}
	}
	ra := s.Check(pc, a)
	if ra == "unsat" {
		return ra, "sat"
	}
	return ra, s.Check(pc, b)
}

func (s *Solver) raceQuiet(script string, only string) string {
	for _, b := range s.backends(false) {
		if b.name != only {
			continue
		}
		cmd := exec.Command(b.argv[0], b.argv[1:]...)
		cmd.Stdin = strings.NewReader(script)
		out, _ := cmd.CombinedOutput()
		lines := strings.Split(strings.TrimSpace(string(out)), "\n")
		r := "unknown"
		if len(lines) > 0 && (lines[0] == "sat" || lines[0] == "unsat") {
			r = lines[0]
		}
		for _, l := range lines {
			if strings.HasPrefix(l, "(error") {
				r = "unknown"
			}
		}
		return r
	}
	return "unknown"
}

// z3Bin selects the binary for the long-lived incremental solver (VERIF_Z3=z3|z3-new).
func z3Bin() string {
	if b := os.Getenv("VERIF_Z3"); b != "" {
		return b
	}
	return "z3-new"
}
