#!/usr/bin/env python3
"""confirm_seed.py <seed-dir-name> [check-ids...]: confirms a seeded change in a scratch worktree:
patch applies, builds, the repository suite passes (apart from the root-only localkm case), the
demonstration fails with the patch and passes without it; then runs the named checks against the
patched tree and records everything in seeded/<name>/meta.json."""
import json, os, re, subprocess, sys, shutil, time
V = os.path.dirname(os.path.dirname(os.path.abspath(__file__)))
name = sys.argv[1]
checks = sys.argv[2:] or [name.split("-")[0]]
sd = os.path.join(V, "seeded", name)
wt = "/tmp/confirm-" + name
env = dict(os.environ, GOPROXY="off", GOSUMDB="off", GOTOOLCHAIN="local", GOFLAGS="")
def sh(cmd, cwd=None, timeout=3000):
    p = subprocess.run(cmd, shell=True, cwd=cwd, env=env, stdout=subprocess.PIPE, stderr=subprocess.STDOUT, text=True, timeout=timeout)
    return p.returncode, p.stdout
subprocess.run("git -C /repo worktree remove --force %s" % wt, shell=True, stderr=subprocess.DEVNULL)
rc, out = sh("git -C /repo worktree add -q --detach %s HEAD" % wt)
assert rc == 0, out
meta = {"seed": name, "property": name.split("-")[0], "base_commit": sh("git -C /repo rev-parse --short HEAD")[1].strip(), "ran": []}
try:
    demo = open(os.path.join(sd, "demo_test.go")).read()
    notes_txt = open(os.path.join(sd, "notes.md")).read() if os.path.exists(os.path.join(sd, "notes.md")) else ""
    hdr = demo[:3000] + "\n" + notes_txt
    m = re.search(r"^package (\w+)", demo, re.M)
    pkgname = m.group(1)
    # target directory: from the header comment ("copy ... into <dir>/")
    cands = re.findall(r"([\w./-]+/)(?:\s|`|\)|,|$)", demo[:3000])
    target = None
    for c in re.findall(r"(?:into|to|in)\s+(?:the package directory\s+)?`?([\w./-]+?)/?`?[\s(,]", hdr):
        d = re.sub(r"^/tmp/wt\d*-%s/" % meta["property"], "", c.strip("`")).strip("/")
        d = re.sub(r"/[\w]+_test\.go$", "", d)
        if os.path.isdir(os.path.join(wt, d)) and d not in (".", ""):
            target = d
            break
    if os.environ.get("CONFIRM_TARGET"):
        target = os.environ["CONFIRM_TARGET"]
    if target is None:
        mm = re.search(r"go test[^\n]*?(\./[\w/]+)/?\s*$", hdr, re.M)
        if mm:
            target = mm.group(1).lstrip("./")
    if target is None:
        raise SystemExit("cannot find demo target dir")
    moddir = wt
    rel = target
    if target.startswith("gcetcbendorsement"):
        moddir = os.path.join(wt, "gcetcbendorsement")
        rel = target[len("gcetcbendorsement"):].lstrip("/") or "."
    run = re.search(r"-run\s+'?\"?([\w|^$]+)", hdr)
    runpat = os.environ.get("CONFIRM_RUN") or (run.group(1) if run else "Test")
    meta["demo_target"], meta["demo_run"] = target, runpat
    dst = os.path.join(wt, target, "zz_seed_demo_test.go")
    def demo_run():
        shutil.copy(os.path.join(sd, "demo_test.go"), dst)
        rc, out = sh("go test -vet=off -count=1 -run '%s' ./%s" % (runpat, rel), cwd=moddir)
        os.remove(dst)
        return rc, out
    rc0, out0 = demo_run()
    meta["ran"].append({"cmd": "demo on unpatched tree", "rc": rc0, "tail": out0[-300:] if rc0 else ""})
    rc, out = sh("git apply %s" % os.path.join(sd, "patch.diff"), cwd=wt)
    meta["ran"].append({"cmd": "git apply patch.diff", "rc": rc})
    assert rc == 0, out
    rc, out = sh("go build ./... && cd gcetcbendorsement && go build ./...", cwd=wt)
    meta["ran"].append({"cmd": "go build both modules", "rc": rc})
    rcs, outs = sh("%s/tools/baseline.sh %s" % (V, wt))
    fails = [l for l in outs.splitlines() if l.startswith("--- FAIL") or l.startswith("FAIL\t")]
    other = [l for l in fails if "TestLoadKeys" not in l and "localkm" not in l]
    meta["ran"].append({"cmd": "tools/baseline.sh (suite with patch)", "failures_other_than_root_only_localkm": other})
    rc1, out1 = demo_run()
    meta["ran"].append({"cmd": "demo on patched tree", "rc": rc1})
    meta["demo_fails_with_patch"] = rc1 != 0
    meta["demo_passes_without_patch"] = rc0 == 0
    meta["suite_passes_with_patch"] = not other
    meta["detected_by"] = {}
    for c in checks:
        p = subprocess.run("VERIF_REPO=%s %s/check %s quick" % (wt, V, c), shell=True, stdout=subprocess.PIPE, stderr=subprocess.DEVNULL, text=True)
        viol = [l.strip() for l in p.stdout.splitlines() if l.startswith("VIOLATION") or l.startswith("  assert") or l.startswith("  panic") or l.startswith("  alloc") or l.startswith("  unwind")]
        meta["detected_by"][c] = {"exit": p.returncode, "violations": viol[:6]}
    notes = open(os.path.join(sd, "notes.md")).read() if os.path.exists(os.path.join(sd, "notes.md")) else ""
    meta["needs_to_manifest"] = notes[:1500]
finally:
    subprocess.run("git -C /repo worktree remove --force %s" % wt, shell=True)
json.dump(meta, open(os.path.join(sd, "meta.json"), "w"), indent=1)
print(name, "demo_fails_with_patch=%s demo_passes_without=%s suite_ok=%s detected=%s" % (meta.get("demo_fails_with_patch"), meta.get("demo_passes_without_patch"), meta.get("suite_passes_with_patch"), {k: v["exit"] for k, v in meta.get("detected_by", {}).items()}))
