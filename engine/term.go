package main

// Hash-consed SMT terms over Bool, fixed-width bit-vectors and (Array (_ BitVec 64) (_ BitVec 8)),
// plus uninterpreted functions. Terms carry a numeric id; ids are topologically ordered (children
// are created before parents) so a definition list printed in id order is well-formed.

import (
	"fmt"
	"math/big"
	"sort"
	"strings"
)

type Sort struct {
	Kind  int // 0 bool, 1 bv, 2 array bv64->bv8
	Width int
}

var BoolSort = Sort{0, 0}

func BV(w int) Sort { return Sort{1, w} }

var ArrSort = Sort{2, 0}

func (s Sort) String() string {
	switch s.Kind {
	case 0:
		return "Bool"
	case 1:
		return fmt.Sprintf("(_ BitVec %d)", s.Width)
	}
	return "(Array (_ BitVec 64) (_ BitVec 8))"
}

type Term struct {
	ID    int
	Op    string
	Args  []*Term
	Sort  Sort
	Const *big.Int // bv consts; bool consts 0/1
	Name  string   // vars and UF applications
}

var (
	termTab  = map[string]*Term{}
	allTerms []*Term
)

func key(t *Term) string {
	var sb strings.Builder
	sb.WriteString(t.Op)
	switch t.Op {
	case "const":
		fmt.Fprintf(&sb, ":%d:%d:%s", t.Sort.Kind, t.Sort.Width, t.Const.String())
	case "var":
		sb.WriteString(":" + t.Name)
	default:
		if t.Name != "" {
			sb.WriteString(":" + t.Name)
		}
		for _, a := range t.Args {
			fmt.Fprintf(&sb, " %d", a.ID)
		}
	}
	return sb.String()
}

func intern(t *Term) *Term {
	k := key(t)
	if old, ok := termTab[k]; ok {
		return old
	}
	t.ID = len(allTerms)
	allTerms = append(allTerms, t)
	termTab[k] = t
	return t
}

func (t *Term) IsConst() bool { return t.Op == "const" }

// ref is how the term is referred to from other terms in printed output.
func (t *Term) ref() string {
	switch t.Op {
	case "const":
		if t.Sort.Kind == 0 {
			if t.Const.Sign() != 0 {
				return "true"
			}
			return "false"
		}
		return fmt.Sprintf("(_ bv%s %d)", t.Const.String(), t.Sort.Width)
	case "var":
		return t.Name
	}
	return fmt.Sprintf("t%d", t.ID)
}

// body is the defining expression of a compound term.
func (t *Term) body() string {
	var sb strings.Builder
	sb.WriteString("(")
	if t.Op == "uf" {
		sb.WriteString(t.Name)
	} else {
		sb.WriteString(t.Op)
	}
	for _, a := range t.Args {
		sb.WriteString(" ")
		sb.WriteString(a.ref())
	}
	sb.WriteString(")")
	return sb.String()
}

func (t *Term) compound() bool { return t.Op != "const" && t.Op != "var" }

// String prints the term as a tree (debugging / small terms only).
func (t *Term) String() string {
	if !t.compound() {
		return t.ref()
	}
	var sb strings.Builder
	sb.WriteString("(")
	if t.Op == "uf" {
		sb.WriteString(t.Name)
	} else {
		sb.WriteString(t.Op)
	}
	for _, a := range t.Args {
		sb.WriteString(" ")
		sb.WriteString(a.String())
	}
	sb.WriteString(")")
	return sb.String()
}

// closure returns all compound terms reachable from roots, in id order, plus vars and uf names.
func closure(roots []*Term) (defs []*Term, vars []*Term, ufs map[string]*Term) {
	seen := map[int]bool{}
	ufs = map[string]*Term{}
	var walk func(t *Term)
	walk = func(t *Term) {
		if seen[t.ID] {
			return
		}
		seen[t.ID] = true
		for _, a := range t.Args {
			walk(a)
		}
		switch {
		case t.Op == "var":
			vars = append(vars, t)
		case t.compound():
			defs = append(defs, t)
			if t.Op == "uf" {
				if _, ok := ufs[t.Name]; !ok {
					ufs[t.Name] = t
				}
			}
		}
	}
	for _, r := range roots {
		walk(r)
	}
	sort.Slice(defs, func(i, j int) bool { return defs[i].ID < defs[j].ID })
	sort.Slice(vars, func(i, j int) bool { return vars[i].ID < vars[j].ID })
	return
}

func ufDecl(t *Term) string {
	var sb strings.Builder
	fmt.Fprintf(&sb, "(declare-fun %s (", t.Name)
	for i, a := range t.Args {
		if i > 0 {
			sb.WriteString(" ")
		}
		sb.WriteString(a.Sort.String())
	}
	fmt.Fprintf(&sb, ") %s)", t.Sort)
	return sb.String()
}

func mask(w int) *big.Int {
	m := new(big.Int).Lsh(big.NewInt(1), uint(w))
	return m.Sub(m, big.NewInt(1))
}

func BVConst(v *big.Int, w int) *Term {
	x := new(big.Int).And(v, mask(w))
	return intern(&Term{Op: "const", Sort: BV(w), Const: x})
}
func BVInt(v int64, w int) *Term   { return BVConst(big.NewInt(v), w) }
func BVUint(v uint64, w int) *Term { return BVConst(new(big.Int).SetUint64(v), w) }
func Bool(b bool) *Term {
	if b {
		return intern(&Term{Op: "const", Sort: BoolSort, Const: big.NewInt(1)})
	}
	return intern(&Term{Op: "const", Sort: BoolSort, Const: big.NewInt(0)})
}

var True, False *Term

func init() { True, False = Bool(true), Bool(false) }

func Var(name string, s Sort) *Term { return intern(&Term{Op: "var", Name: name, Sort: s}) }

var varOrder []*Term

// smtName makes a name safe as an SMT-LIB simple symbol.
func smtName(s string) string {
	var sb strings.Builder
	for _, r := range s {
		switch {
		case r >= 'a' && r <= 'z', r >= 'A' && r <= 'Z', r >= '0' && r <= '9', r == '_', r == '.', r == '!':
			sb.WriteRune(r)
		default:
			sb.WriteRune('_')
		}
	}
	return sb.String()
}

// Fresh creates the k-th variable of the given base name on a path: "<name>!<k>". The counter is
// per path (kept in the State), so the k-th request for a name on any path is the same variable,
// which is what lets a model be replayed natively by call order.
func freshVar(name string, k int, s Sort) *Term {
	full := fmt.Sprintf("%s!%d", smtName(name), k)
	if prev, ok := varSort[full]; ok && prev != s {
		// The same base name is drawn with two types on different paths (one counter per name, as in
		// the native runtime): the SMT symbol carries the sort, the replay driver strips it again.
		full = fmt.Sprintf("%s@%s!%d", smtName(name), sortTag(s), k)
	} else {
		varSort[full] = s
	}
	t := Var(full, s)
	if !varSeen[t.ID] {
		varSeen[t.ID] = true
		varOrder = append(varOrder, t)
	}
	return t
}

var varSeen = map[int]bool{}
var varSort = map[string]Sort{}

func sortTag(s Sort) string {
	if s.Kind == 0 {
		return "b"
	}
	return fmt.Sprintf("w%d", s.Width)
}

// UF applies an uninterpreted function (declared on first use in each solver).
func UF(name string, s Sort, args ...*Term) *Term {
	return intern(&Term{Op: "uf", Name: smtName(name), Sort: s, Args: args})
}

func signed(v *big.Int, w int) *big.Int {
	if v.Bit(w-1) == 1 {
		return new(big.Int).Sub(v, new(big.Int).Lsh(big.NewInt(1), uint(w)))
	}
	return v
}

func mk(op string, s Sort, args ...*Term) *Term {
	return intern(&Term{Op: op, Sort: s, Args: args})
}

func BVBin(op string, a, b *Term) *Term {
	w := a.Sort.Width
	if b.Sort.Width != w {
		panic(fmt.Sprintf("BVBin %s width mismatch %d vs %d", op, w, b.Sort.Width))
	}
	if a.IsConst() && b.IsConst() {
		x, y := a.Const, b.Const
		r := new(big.Int)
		switch op {
		case "bvadd":
			return BVConst(r.Add(x, y), w)
		case "bvsub":
			return BVConst(r.Sub(x, y), w)
		case "bvmul":
			return BVConst(r.Mul(x, y), w)
		case "bvand":
			return BVConst(r.And(x, y), w)
		case "bvor":
			return BVConst(r.Or(x, y), w)
		case "bvxor":
			return BVConst(r.Xor(x, y), w)
		case "bvudiv":
			if y.Sign() != 0 {
				return BVConst(r.Div(x, y), w)
			}
		case "bvurem":
			if y.Sign() != 0 {
				return BVConst(r.Mod(x, y), w)
			}
		case "bvsdiv":
			if y.Sign() != 0 {
				return BVConst(r.Quo(signed(x, w), signed(y, w)), w)
			}
		case "bvsrem":
			if y.Sign() != 0 {
				return BVConst(r.Rem(signed(x, w), signed(y, w)), w)
			}
		case "bvshl":
			if y.IsUint64() && y.Uint64() < uint64(w) {
				return BVConst(r.Lsh(x, uint(y.Uint64())), w)
			}
			return BVInt(0, w)
		case "bvlshr":
			if y.IsUint64() && y.Uint64() < uint64(w) {
				return BVConst(r.Rsh(x, uint(y.Uint64())), w)
			}
			return BVInt(0, w)
		case "bvashr":
			sh := uint(w)
			if y.IsUint64() && y.Uint64() < uint64(w) {
				sh = uint(y.Uint64())
			}
			return BVConst(r.Rsh(signed(x, w), sh), w)
		}
	}
	isZero := func(t *Term) bool { return t.IsConst() && t.Const.Sign() == 0 }
	switch op {
	case "bvadd", "bvor", "bvxor":
		if isZero(a) {
			return b
		}
		if isZero(b) {
			return a
		}
	case "bvsub", "bvshl", "bvlshr", "bvashr":
		if isZero(b) {
			return a
		}
		if op == "bvsub" && a == b {
			return BVInt(0, w)
		}
	case "bvand":
		if isZero(a) || isZero(b) {
			return BVInt(0, w)
		}
		if a.IsConst() && a.Const.Cmp(mask(w)) == 0 {
			return b
		}
		if b.IsConst() && b.Const.Cmp(mask(w)) == 0 {
			return a
		}
	case "bvmul":
		if isZero(a) || isZero(b) {
			return BVInt(0, w)
		}
		if a.IsConst() && a.Const.Cmp(big.NewInt(1)) == 0 {
			return b
		}
		if b.IsConst() && b.Const.Cmp(big.NewInt(1)) == 0 {
			return a
		}
	}
	// (x + c1) + c2 => x + (c1+c2): keeps slice offsets normalised.
	if op == "bvadd" && b.IsConst() && a.Op == "bvadd" && a.Args[1].IsConst() {
		return BVBin("bvadd", a.Args[0], BVConst(new(big.Int).Add(a.Args[1].Const, b.Const), w))
	}
	if op == "bvadd" && a.IsConst() && !b.IsConst() {
		return BVBin("bvadd", b, a)
	}
	if op == "bvsub" && b.IsConst() {
		return BVBin("bvadd", a, BVConst(new(big.Int).Neg(b.Const), w))
	}
	// (x + c) - x => c
	if op == "bvsub" && a.Op == "bvadd" && a.Args[0] == b {
		return a.Args[1]
	}
	return mk(op, BV(w), a, b)
}

func BVCmp(op string, a, b *Term) *Term {
	w := a.Sort.Width
	if b.Sort.Width != w {
		panic(fmt.Sprintf("BVCmp %s width mismatch %d vs %d", op, w, b.Sort.Width))
	}
	if a.IsConst() && b.IsConst() {
		x, y := a.Const, b.Const
		switch op {
		case "=":
			return Bool(x.Cmp(y) == 0)
		case "bvult":
			return Bool(x.Cmp(y) < 0)
		case "bvule":
			return Bool(x.Cmp(y) <= 0)
		case "bvugt":
			return Bool(x.Cmp(y) > 0)
		case "bvuge":
			return Bool(x.Cmp(y) >= 0)
		case "bvslt":
			return Bool(signed(x, w).Cmp(signed(y, w)) < 0)
		case "bvsle":
			return Bool(signed(x, w).Cmp(signed(y, w)) <= 0)
		case "bvsgt":
			return Bool(signed(x, w).Cmp(signed(y, w)) > 0)
		case "bvsge":
			return Bool(signed(x, w).Cmp(signed(y, w)) >= 0)
		}
	}
	if a == b {
		switch op {
		case "=", "bvule", "bvuge", "bvsle", "bvsge":
			return True
		default:
			return False
		}
	}
	if op == "=" {
		// ite(c, k1, k2) = k with constants folds to c / not c / false
		if b.IsConst() && a.Op == "ite" && a.Args[1].IsConst() && a.Args[2].IsConst() {
			e1 := a.Args[1].Const.Cmp(b.Const) == 0
			e2 := a.Args[2].Const.Cmp(b.Const) == 0
			switch {
			case e1 && e2:
				return True
			case e1:
				return a.Args[0]
			case e2:
				return Not(a.Args[0])
			default:
				return False
			}
		}
		if a.IsConst() && !b.IsConst() {
			return BVCmp("=", b, a)
		}
		// x + c1 = c2  =>  x = c2 - c1
		if b.IsConst() && a.Op == "bvadd" && a.Args[1].IsConst() {
			return BVCmp("=", a.Args[0], BVConst(new(big.Int).Sub(b.Const, a.Args[1].Const), w))
		}
	}
	return mk(op, BoolSort, a, b)
}

func Not(a *Term) *Term {
	if a == True {
		return False
	}
	if a == False {
		return True
	}
	if a.Op == "not" {
		return a.Args[0]
	}
	return mk("not", BoolSort, a)
}
func And(a, b *Term) *Term {
	if a == False || b == False {
		return False
	}
	if a == True {
		return b
	}
	if b == True {
		return a
	}
	if a == b {
		return a
	}
	if Not(a) == b {
		return False
	}
	return mk("and", BoolSort, a, b)
}
func Or(a, b *Term) *Term {
	if a == True || b == True {
		return True
	}
	if a == False {
		return b
	}
	if b == False {
		return a
	}
	if a == b {
		return a
	}
	if Not(a) == b {
		return True
	}
	return mk("or", BoolSort, a, b)
}
func AndAll(ts []*Term) *Term {
	r := True
	for _, t := range ts {
		r = And(r, t)
	}
	return r
}
func Implies(a, b *Term) *Term { return Or(Not(a), b) }
func Eq(a, b *Term) *Term {
	if a == b {
		return True
	}
	if a.Sort.Kind == 1 {
		return BVCmp("=", a, b)
	}
	if a.IsConst() && b.IsConst() {
		return Bool(a.Const.Cmp(b.Const) == 0)
	}
	if a.Sort.Kind == 0 {
		if a == True {
			return b
		}
		if b == True {
			return a
		}
		if a == False {
			return Not(b)
		}
		if b == False {
			return Not(a)
		}
	}
	return mk("=", BoolSort, a, b)
}
func Ite(c, a, b *Term) *Term {
	if c == True {
		return a
	}
	if c == False {
		return b
	}
	if a == b {
		return a
	}
	if a.Sort.Kind == 0 {
		if a == True && b == False {
			return c
		}
		if a == False && b == True {
			return Not(c)
		}
		if a == True {
			return Or(c, b)
		}
		if b == False {
			return And(c, a)
		}
		if a == False {
			return And(Not(c), b)
		}
		if b == True {
			return Or(Not(c), a)
		}
	}
	return mk("ite", a.Sort, c, a, b)
}
func Extract(hi, lo int, a *Term) *Term {
	if a.IsConst() {
		r := new(big.Int).Rsh(a.Const, uint(lo))
		return BVConst(r, hi-lo+1)
	}
	if lo == 0 && hi == a.Sort.Width-1 {
		return a
	}
	// extract of zero_extend/concat pieces that are common in little-endian decoding
	if strings.HasPrefix(a.Op, "(_ zero_extend") && hi < a.Args[0].Sort.Width {
		return Extract(hi, lo, a.Args[0])
	}
	return mk(fmt.Sprintf("(_ extract %d %d)", hi, lo), BV(hi-lo+1), a)
}
func ZeroExt(n int, a *Term) *Term {
	if n == 0 {
		return a
	}
	if a.IsConst() {
		return BVConst(a.Const, a.Sort.Width+n)
	}
	return mk(fmt.Sprintf("(_ zero_extend %d)", n), BV(a.Sort.Width+n), a)
}
func SignExt(n int, a *Term) *Term {
	if n == 0 {
		return a
	}
	if a.IsConst() {
		return BVConst(signed(a.Const, a.Sort.Width), a.Sort.Width+n)
	}
	return mk(fmt.Sprintf("(_ sign_extend %d)", n), BV(a.Sort.Width+n), a)
}
func Concat(hi, lo *Term) *Term {
	if hi.IsConst() && lo.IsConst() {
		v := new(big.Int).Lsh(hi.Const, uint(lo.Sort.Width))
		v.Or(v, lo.Const)
		return BVConst(v, hi.Sort.Width+lo.Sort.Width)
	}
	return mk("concat", BV(hi.Sort.Width+lo.Sort.Width), hi, lo)
}

var zeroArr = intern(&Term{Op: "var", Name: "verif.zeroarr", Sort: ArrSort})

func Select(arr, idx *Term) *Term {
	// read-over-write with syntactically decidable indices
	for arr.Op == "store" {
		i := arr.Args[1]
		if i == idx {
			return arr.Args[2]
		}
		if i.IsConst() && idx.IsConst() {
			arr = arr.Args[0]
			continue
		}
		break
	}
	if arr == zeroArr {
		return BVInt(0, 8)
	}
	return mk("select", BV(8), arr, idx)
}
func Store(arr, idx, v *Term) *Term { return mk("store", ArrSort, arr, idx, v) }

func toI64(t *Term) *Term {
	if t.Sort.Width == 64 {
		return t
	}
	if t.Sort.Width > 64 {
		return Extract(63, 0, t)
	}
	return ZeroExt(64-t.Sort.Width, t)
}
