package parsepath

// C19 — field-path inspection returns exactly the addressed value.
//
// Obligation family "parse+eval": the real ParsePath (state machine of parse.go) and the real
// PathValues (access.go) run on an arbitrary token sequence (every token kind at every position;
// identifier / number / string texts from the vocabularies below, which contain every field name
// of the schema, the map-entry names, the boolean words, numbers at every integer-width boundary
// and an arbitrary one-byte string) and on an arbitrary message of the schema in fakes.go. The
// scanner is cut at (*scanner).scan (it is the subject of the "scan" obligations in c19_scan.go);
// error-text rendering (showState) has an empty body.
//
// Oracle: verifReference walks the message field by field following the *tokens* (not the parsed
// path and not the descriptors): it yields present(value) / absent (index out of range, key not in
// map) / ill-typed (no such element can exist) / malformed (not a path at all).

import (
	"fmt"

	"google.golang.org/protobuf/reflect/protopath"
	"google.golang.org/protobuf/reflect/protoreflect"
)

//verif:cut (*github.com/google/gce-tcb-verifier/gcetcbendorsement/parsepath.scanner).scan verifScanStub
//verif:cut (*github.com/google/gce-tcb-verifier/gcetcbendorsement/parsepath.parser).showState verifShowState

func verifShowState(p *parser, pos int) string { return "" }

// (functions, not variables: the package initialiser of parsepath compiles regular expressions,
// which the engine does not execute, so its package-level variables are not available to it)
func vfIdentsF() []string {
	return []string{"s", "m", "rs", "rm", "mm", "ms", "key", "value", "true", "false", "t", "M", "zz"}
}

// text, value (two's complement), negative, fits int32 / int64 / uint32 / uint64
func vfIntsF() []vfInt {
	return []vfInt{
		{"0", 0, false, true, true, true, true},
		{"1", 1, false, true, true, true, true},
		{"-1", ^uint64(0), true, true, true, false, false},
		{"0x1", 1, false, true, true, true, true},
		{"01", 1, false, true, true, true, true},
		{"010", 8, false, true, true, true, true},
		{"0x10", 16, false, true, true, true, true},
		{"2147483648", 1 << 31, false, false, true, true, true},
		{"4294967296", 1 << 32, false, false, true, false, true},
		{"18446744073709551615", ^uint64(0), false, false, false, false, true},
		{"-9223372036854775808", 1 << 63, true, false, true, false, false},
		{"99999999999999999999", 0, false, false, false, false, false},
	}
}

var (
	verifTokMax  int
	verifTokSeen []*token
	verifTokLits []int // per token: index into vfInts for intlit tokens, else -1
)

type vfInt struct {
	text                               string
	val                                uint64
	neg                                bool
	fitsI32, fitsI64, fitsU32, fitsU64 bool
}

// verifPick: an arbitrary value in [0,n), one path per value.
func verifPick(name string, n int) int {
	v := int(verifNondetU8(name))
	verifAssume(v < n, "choice within its vocabulary")
	return verifConcretize(v, 0, n-1)
}

// verifScanStub stands in for the scanner: the next token is arbitrary.
func verifScanStub(s *scanner) *token {
	if len(verifTokSeen) >= verifTokMax {
		return &token{Kind: eof}
	}
	k := tokenKind(verifPick("tok_kind", int(eof)+1))
	t := &token{Kind: k}
	lit := -1
	switch k {
	case eof:
		return t
	case ident:
		t.Text = vfIdentsF()[verifPick("tok_ident", len(vfIdentsF()))]
	case intlit:
		lit = verifPick("tok_int", len(vfIntsF()))
		t.Text = vfIntsF()[lit].text
	case strlit:
		if verifNondetBool("tok_str_empty") {
			t.Text = ""
		} else {
			t.Text = verifNondetStr("tok_str", 1)
		}
	}
	verifTokSeen = append(verifTokSeen, t)
	verifTokLits = append(verifTokLits, lit)
	return t
}

const (
	vfPresent = iota
	vfAbsent
	vfIllTyped
	vfMalformed
)

type vfRef struct {
	state int
	msg   *vfMsg
	list  *vfList
	mp    *vfMap
	str   string
	// element type of the list/map the cursor is on
	elemIsMsg bool
}

func (r *vfRef) matches(got protoreflect.Value) bool {
	switch {
	case r.msg != nil:
		g, ok := got.Interface().(*vfMsg)
		return ok && g == r.msg
	case r.list != nil:
		g, ok := got.Interface().(*vfList)
		return ok && g == r.list
	case r.mp != nil:
		g, ok := got.Interface().(*vfMap)
		return ok && g == r.mp
	}
	g, ok := got.Interface().(string)
	return ok && g == r.str
}

func vfOfValue(v protoreflect.Value) vfRef {
	switch x := v.Interface().(type) {
	case *vfMsg:
		return vfRef{msg: x}
	case string:
		return vfRef{str: x}
	}
	panic("harness: unexpected element value")
}

// field access on the reference cursor, straight on the Go struct.
func (r vfRef) field(name string) vfRef {
	if r.msg == nil {
		return vfRef{state: vfIllTyped}
	}
	m := r.msg
	switch name {
	case "s":
		return vfRef{str: m.s}
	case "m":
		return vfRef{msg: m.sub()}
	case "rs":
		return vfRef{list: m.rs}
	case "rm":
		return vfRef{list: m.rm, elemIsMsg: true}
	case "mm":
		return vfRef{mp: m.mm, elemIsMsg: true}
	case "ms":
		return vfRef{mp: m.ms}
	}
	return vfRef{state: vfIllTyped}
}

func (r vfRef) index(t *token, lit int) vfRef {
	vfInts := vfIntsF()
	if lit < 0 {
		lit = len(vfInts) - 1 // not a number: the entry that fits nothing
	}
	switch {
	case r.list != nil:
		if t.Kind != intlit || !vfInts[lit].fitsI64 || vfInts[lit].neg {
			return vfRef{state: vfIllTyped}
		}
		i := vfInts[lit].val
		if i >= uint64(r.list.n) {
			return vfRef{state: vfAbsent}
		}
		return vfOfValue(r.list.elems[i])
	case r.mp != nil:
		mp := r.mp
		for i := 0; i < mp.n; i++ {
			hit := false
			switch vfKeyClass(mp.kind) {
			case vfClassBool:
				if t.Kind != ident || (t.Text != "true" && t.Text != "false") {
					return vfRef{state: vfIllTyped}
				}
				hit = (mp.num[i] != 0) == (t.Text == "true")
			case vfClassStr:
				if t.Kind != strlit {
					return vfRef{state: vfIllTyped}
				}
				hit = mp.str[i] == t.Text
			case vfClassI32:
				if t.Kind != intlit || !vfInts[lit].fitsI32 {
					return vfRef{state: vfIllTyped}
				}
				hit = uint32(mp.num[i]) == uint32(vfInts[lit].val)
			case vfClassI64:
				if t.Kind != intlit || !vfInts[lit].fitsI64 {
					return vfRef{state: vfIllTyped}
				}
				hit = mp.num[i] == vfInts[lit].val
			case vfClassU32:
				if t.Kind != intlit || !vfInts[lit].fitsU32 {
					return vfRef{state: vfIllTyped}
				}
				hit = uint32(mp.num[i]) == uint32(vfInts[lit].val)
			case vfClassU64:
				if t.Kind != intlit || !vfInts[lit].fitsU64 {
					return vfRef{state: vfIllTyped}
				}
				hit = mp.num[i] == vfInts[lit].val
			}
			if hit {
				return vfOfValue(mp.vals[i])
			}
		}
		// no entry matched: the literal must still be a key of the map's type
		switch vfKeyClass(mp.kind) {
		case vfClassBool:
			if t.Kind != ident || (t.Text != "true" && t.Text != "false") {
				return vfRef{state: vfIllTyped}
			}
		case vfClassStr:
			if t.Kind != strlit {
				return vfRef{state: vfIllTyped}
			}
		case vfClassI32:
			if t.Kind != intlit || !vfInts[lit].fitsI32 {
				return vfRef{state: vfIllTyped}
			}
		case vfClassI64:
			if t.Kind != intlit || !vfInts[lit].fitsI64 {
				return vfRef{state: vfIllTyped}
			}
		case vfClassU32:
			if t.Kind != intlit || !vfInts[lit].fitsU32 {
				return vfRef{state: vfIllTyped}
			}
		case vfClassU64:
			if t.Kind != intlit || !vfInts[lit].fitsU64 {
				return vfRef{state: vfIllTyped}
			}
		}
		return vfRef{state: vfAbsent}
	}
	return vfRef{state: vfIllTyped}
}

// verifWellFormed: path := [ '(' ident { '.' ident } ')' ] accessors. Without the parenthesised
// root the first accessor is a bare identifier; otherwise every field access is '.' ident and
// every index is '[' literal ']'. Returns the position after the root and whether a root was given.
func verifWellFormed(toks []*token) (ok bool, start int, rooted bool) {
	i := 0
	if len(toks) > 0 && toks[0].Kind == oparen {
		i = 1
		for {
			if i >= len(toks) || toks[i].Kind != ident {
				return false, 0, false
			}
			i++
			if i < len(toks) && toks[i].Kind == dot {
				i++
				continue
			}
			break
		}
		if i >= len(toks) || toks[i].Kind != cparen {
			return false, 0, false
		}
		i++
		rooted = true
	}
	start = i
	first := !rooted
	for i < len(toks) {
		switch {
		case first && toks[i].Kind == ident:
			i++
		case !first && toks[i].Kind == dot:
			if i+1 >= len(toks) || toks[i+1].Kind != ident {
				return false, 0, false
			}
			i += 2
		case !first && toks[i].Kind == obrack:
			if i+2 >= len(toks) || toks[i+2].Kind != cbrack {
				return false, 0, false
			}
			if k := toks[i+1].Kind; k != ident && k != intlit && k != strlit {
				return false, 0, false
			}
			i += 3
		default:
			return false, 0, false
		}
		first = false
	}
	return true, start, rooted
}

// verifReference walks the message following the tokens.
func verifReference(root *vfMsg, toks []*token, lits []int) vfRef {
	ok, i, rooted := verifWellFormed(toks)
	if !ok {
		return vfRef{state: vfMalformed}
	}
	if rooted {
		name := ""
		for _, t := range toks[1 : i-1] {
			if t.Kind == dot {
				name += "."
			} else {
				name += t.Text
			}
		}
		if name != "t.M" {
			return vfRef{state: vfIllTyped}
		}
	}
	cur := vfRef{msg: root}
	for i < len(toks) && cur.state == vfPresent {
		switch toks[i].Kind {
		case ident:
			cur = cur.field(toks[i].Text)
			i++
		case dot:
			cur = cur.field(toks[i+1].Text)
			i += 2
		case obrack:
			cur = cur.index(toks[i+1], lits[i+1])
			i += 3
		}
	}
	return cur
}

// verifIndexStepsCarryLiterals: every list-index and integer map-key step of the parsed path has
// the numeric value of its literal, base prefix included ("010" is 8, "0x10" is 16). Lists in the
// messages have at most two elements, so a mis-read index would otherwise only move between
// "absent" and "absent".
func verifIndexStepsCarryLiterals(path protopath.Path, keyKind protoreflect.Kind) {
	vfInts := vfIntsF()
	var lits []int // vocabulary index of each bracketed literal, -1 if it is not a number
	for i, t := range verifTokSeen {
		if t.Kind == obrack && i+1 < len(verifTokSeen) {
			lits = append(lits, verifTokLits[i+1])
		}
	}
	k := 0
	for _, st := range path {
		switch st.Kind() {
		case protopath.ListIndexStep:
			if k < len(lits) && lits[k] >= 0 {
				verifAssert(uint64(st.ListIndex()) == vfInts[lits[k]].val, "a list index step carries the value of its literal")
			}
			k++
		case protopath.MapIndexStep:
			if k < len(lits) && lits[k] >= 0 {
				switch vfKeyClass(keyKind) {
				case vfClassI32:
					verifAssert(st.MapIndex().Int() == int64(int32(vfInts[lits[k]].val)), "a 32-bit integer map key step carries the value of its literal")
				case vfClassI64:
					verifAssert(st.MapIndex().Int() == int64(vfInts[lits[k]].val), "a 64-bit integer map key step carries the value of its literal")
				case vfClassU32, vfClassU64:
					verifAssert(st.MapIndex().Uint() == vfInts[lits[k]].val, "an unsigned map key step carries the value of its literal")
				}
			}
			k++
		}
	}
}

// verifParse: under the engine the real ParsePath with its scanner cut to verifScanStub; in a native
// replay (where the cut does not exist) ParsePath's driver loop is spelled out around the same
// real parser steps.
func verifParse(md protoreflect.MessageDescriptor) (protopath.Path, error) {
	if verifSymbolic() {
		return ParsePath(md, "x")
	}
	p := newParser(md, "")
	for {
		tok := verifScanStub(p.s)
		if tok.Kind == eof {
			if p.state.isTerminal() {
				return p.path, nil
			}
			return nil, fmt.Errorf("finished parsing in state that expects %s", p.state.expect())
		}
		if err := p.step(tok); err != nil {
			return nil, err
		}
	}
}

// VerifC19ParseEval: tokens ≤ maxTok, nested messages down to `depth`.
func VerifC19ParseEval(maxTok, depth int) {
	verifUnwind(16)
	verifTokMax = maxTok
	kind := protoreflect.Kind(verifNondetU8("key_kind"))
	verifAssume(verifLegalKeyKind(kind), "map key kind is one of the twelve legal kinds")
	md := verifSchema(kind)
	msg := verifArbitraryMsg(md, kind, depth, "")
	path, err := verifParse(md)
	verifObserve("parse_ok", err == nil)
	if err != nil {
		verifReach("parse_rejected")
		verifAssert(path == nil, "a rejected path text yields no path")
		return
	}
	verifReach("parse_accepted")
	ref := verifReference(msg, verifTokSeen, verifTokLits)
	verifAssert(ref.state != vfMalformed, "only token sequences of the path grammar are accepted")
	verifIndexStepsCarryLiterals(path, kind)
	vs, err := PathValues(path, msg)
	verifObserve("ref_state", ref.state)
	verifObserve("eval_ok", err == nil)
	if err != nil {
		verifReach("eval_error")
		verifAssert(ref.state != vfPresent, "evaluation fails only when the addressed element is absent")
		return
	}
	verifReach("eval_ok")
	verifAssert(ref.state == vfPresent, "evaluation succeeds only when the walk reaches a value")
	verifAssert(len(vs.Values) == len(path) && len(vs.Path) == len(path), "one value per step")
	verifAssert(ref.matches(vs.Values[len(vs.Values)-1]), "the value returned is the one the field-by-field walk reaches")
	verifReach("end")
}

func VerifC19ParseEval3() { VerifC19ParseEval(3, 1) }
func VerifC19ParseEval4() { VerifC19ParseEval(4, 1) }
func VerifC19ParseEval5() { VerifC19ParseEval(5, 2) }
func VerifC19ParseEval6() { VerifC19ParseEval(6, 2) }
func VerifC19ParseEval7() { VerifC19ParseEval(7, 2) }
func VerifC19ParseEval8() { VerifC19ParseEval(8, 2) }
