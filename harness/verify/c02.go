package verify

import (
	"bytes"

	epb "github.com/google/gce-tcb-verifier/proto/endorsement"
	spb "github.com/google/go-sev-guest/proto/sevsnp"
)

// C02 (verify library): an accepted SEV-SNP report carries an endorsed measurement for the
// configuration the caller named. The signed table is an arbitrary map (up to n rows, symbolic
// VMSA counts and 48-byte values), the SVSM value is absent or present, the report measurement
// and the requested count are arbitrary.

func verifAllowed(g *epb.VMGoldenMeasurement, vmsas uint32, m []byte) bool {
	if g.SevSnp == nil {
		return false
	}
	snp := g.SevSnp
	svsm := len(snp.SvsmMeasurement) > 0 && bytes.Equal(snp.SvsmMeasurement, m)
	switch vmsas {
	case 0:
		ok := bytes.Equal(m, snp.SvsmMeasurement)
		for _, v := range snp.Measurements {
			ok = ok || bytes.Equal(v, m)
		}
		return ok
	case 1:
		// one launch VMSA is the SVSM configuration (or the listed one-vCPU value)
		v, has := snp.Measurements[1]
		return svsm || (has && bytes.Equal(v, m))
	}
	v, has := snp.Measurements[vmsas]
	return has && bytes.Equal(v, m)
}

func verifC02SNP(n int) {
	w := verifNewWorld(n, false)
	w.goldenOK, w.sigOK, w.chainOK = true, true, true
	g := w.golden
	vmsas := verifNondetU32("expected_vmsas")
	m := verifNondetBytes("report_meas", 48)
	err := SNP(g, &SNPOptions{Measurement: m, ExpectedLaunchVMSAs: vmsas})
	verifObserve("accepted", err == nil)
	if err == nil {
		verifReach("accepted")
		verifAssert(verifAllowed(g, vmsas, m), "accepted report measurement is byte-equal to an endorsed value for the named VMSA count")
	} else {
		verifReach("rejected")
	}
	verifReach("end")
}

func VerifC02SNP0() { verifC02SNP(0) }
func VerifC02SNP1() { verifC02SNP(1) }
func VerifC02SNP2() { verifC02SNP(2) }
func VerifC02SNP3() { verifC02SNP(3) }

// Through the validator closure: length gate, measurement taken from this report, digest gate.
func VerifC02Validator() {
	w := verifNewWorld(1, false)
	e := &epb.VMLaunchEndorsement{SerializedUefiGolden: w.payload, Signature: w.signature}
	vmsas := verifNondetU32("expected_vmsas")
	opts := &Options{RootsOfTrust: w.roots, Now: w.now, Endorsement: e, SNP: &SNPOptions{ExpectedLaunchVMSAs: vmsas}}
	opts.ExpectedUefiSha384 = verifAnyLen("want_len", verifNondetBytes("want", 3))
	n := int(verifNondetU8("report_meas_len"))
	verifAssume(n == 0 || n == 47 || n == 48 || n == 49, "report measurement length drawn from {0,47,48,49}")
	n = verifConcretize(n, 0, 49)
	m := verifNondetBytes("report_meas", n)
	att := &spb.Attestation{Report: &spb.Report{Measurement: m}}
	err := SNPValidateFunc(opts)(att, nil)
	verifObserve("accepted", err == nil)
	if err == nil {
		verifReach("accepted")
		verifAssert(n == 48, "accepted report has a 48-byte measurement")
		verifAssert(verifAllowed(w.golden, vmsas, m), "accepted report measurement is endorsed for the named VMSA count")
		verifAssert(len(opts.ExpectedUefiSha384) == 0 || bytes.Equal(opts.ExpectedUefiSha384, w.golden.Digest), "expected firmware digest equals the endorsed digest")
		verifAssert(w.sigChecked && w.chainChecked, "accepted only after signature and chain checks")
	} else {
		verifReach("rejected")
	}
	verifReach("end")
}
