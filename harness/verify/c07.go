package verify

import (
	epb "github.com/google/gce-tcb-verifier/proto/endorsement"
	spb "github.com/google/go-sev-guest/proto/sevsnp"
)

// C07 (verify library): verification is total on an arbitrary decoded endorsement -- every
// pointer field of the decoded messages absent or present. Runtime panics are the assertions.

func VerifC07Proto() {
	w := verifNewWorld(1, true)
	e := &epb.VMLaunchEndorsement{SerializedUefiGolden: w.payload, Signature: w.signature}
	err := EndorsementProto(e, verifC01Opts(w))
	verifObserve("accepted", err == nil)
	verifReach("end")
}

func VerifC07Validator() {
	w := verifNewWorld(1, true)
	w.outerBytes = verifNondetBytes("outer", 2)
	if verifNondetBool("outer_decodes") {
		w.outer = &epb.VMLaunchEndorsement{}
		if verifNondetBool("outer_has_payload") {
			w.outer.SerializedUefiGolden, w.outer.Signature = w.payload, w.signature
		}
	}
	opts := &Options{RootsOfTrust: w.roots, Now: w.now}
	var att *spb.Attestation
	if verifNondetBool("has_attestation") {
		att = &spb.Attestation{}
		if verifNondetBool("has_report") {
			att.Report = &spb.Report{Measurement: verifNondetBytes("report_meas", 48)}
		}
	}
	err := SNPValidateFunc(opts)(att, w.outerBytes)
	verifObserve("accepted", err == nil)
	verifReach("end")
}
