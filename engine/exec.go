package main

import (
	"fmt"
	"go/constant"
	"go/token"
	"go/types"
	"math/big"
	"os"
	"runtime"
	"strings"
	"time"

	"golang.org/x/tools/go/ssa"
)

type stopCond struct {
	depth int
	block *ssa.BasicBlock // nil: stop when the frame at depth has returned
	pc    int
}

func (c *stopCond) reached(s *State) bool {
	if c.block == nil {
		return len(s.Frames) == c.depth-1
	}
	if len(s.Frames) != c.depth {
		return false
	}
	f := s.Frames[len(s.Frames)-1]
	return f.Block == c.block && f.PC == c.pc
}

type exploreResult struct{ stopped, live []*State }

func (e *Engine) finish(s *State) {
	e.Paths++
	k := s.Status
	if i := strings.Index(k, ":"); i > 0 {
		k = k[:i]
	}
	e.Stats["path:"+k]++
	if e.Verbose && k != "done" && k != "infeasible" && k != "assume-false" {
		e.Stats["status "+s.Status]++
	}
	switch k {
	case "unsupported", "unwind", "steps":
		e.incon(s.Status)
	}
	if k == "done" {
		for _, r := range s.Reach {
			_ = r
		}
		e.Finals = append(e.Finals, s)
		if len(e.Finals) > 64 {
			e.Finals = e.Finals[1:]
		}
	}
}

// explore runs the given states depth-first until each terminates, reaches stop, or the shared
// lookahead budget is exhausted.
func (e *Engine) explore(init []*State, stop *stopCond, budget *int, depth int) exploreResult {
	work := append([]*State(nil), init...)
	var res exploreResult
	for len(work) > 0 {
		if e.MaxFind > 0 && len(e.seenFind) >= e.MaxFind && e.sitesFull() {
			return res
		}
		if !e.Deadline.IsZero() && time.Now().After(e.Deadline) {
			e.incon(fmt.Sprintf("time budget exhausted with %d states still queued (explored %d paths)", len(work), e.Paths))
			return res
		}
		if e.Verbose && time.Since(e.lastLog) > 10*time.Second {
			e.lastLog = time.Now()
			fmt.Fprintf(os.Stderr, "[progress] paths=%d queued=%d branches=%d queries=%d solver=%.1fs findings=%d\n", e.Paths, len(work), e.Branches, e.Solver.Queries, e.Solver.Time.Seconds(), len(e.Findings))
		}
		s := work[len(work)-1]
		work = work[:len(work)-1]
		for {
			if s.Status != "" {
				e.finish(s)
				break
			}
			if stop != nil && stop.reached(s) {
				res.stopped = append(res.stopped, s)
				break
			}
			if budget != nil {
				if *budget <= 0 {
					res.live = append(res.live, s)
					break
				}
				*budget--
			}
			ns := e.stepState(s, budget, depth)
			if len(e.Pending) > 0 {
				work = append(work, e.Pending...)
				e.Pending = nil
			}
			if ns == nil {
				break
			}
			s = ns
		}
	}
	return res
}

// stepState executes one instruction; returns the state to continue with, or nil if the state
// was replaced by states queued on e.Pending.
func (e *Engine) stepState(s *State, budget *int, depth int) (out *State) {
	f := s.top()
	in := f.Block.Instrs[f.PC]
	f.PC++
	s.Steps++
	if s.Steps > e.MaxSteps {
		s.Status = "steps: instruction budget exhausted in " + f.Fn.String()
		return s
	}
	defer func() {
		if r := recover(); r != nil {
			if u, ok := r.(unsupported); ok {
				if _, isIf := in.(*ssa.If); e.initing && !isIf {
					if v, isVal := in.(ssa.Value); isVal {
						s.top().Locals[v] = UnknownV{u.msg}
					}
					e.Stats["init-unknown-values"]++
					out = s
					return
				}
				s.Status = "unsupported: " + u.msg + " at " + e.instrPos(s, in) + " in " + f.Fn.String()
				out = s
				return
			}
			if re, ok := r.(runtime.Error); ok {
				// an engine-internal type mismatch (typically an unknown value reaching an operation):
				// the path is inconclusive, never a verdict
				if e.initing {
					if v, isVal := in.(ssa.Value); isVal {
						s.top().Locals[v] = UnknownV{re.Error()}
					}
					out = s
					return
				}
				s.Status = "unsupported: engine: " + re.Error() + " at " + e.instrPos(s, in) + " in " + f.Fn.String()
				out = s
				return
			}
			panic(r)
		}
	}()
	if x, ok := in.(*ssa.If); ok {
		return e.doIf(s, f, x, budget, depth)
	}
	e.step(s, f, in)
	return s
}

func (e *Engine) feasible(s *State, c *Term) bool {
	if c == True {
		return true
	}
	if c == False {
		return false
	}
	return e.Solver.Check(s.PC, c) != "unsat"
}

func (e *Engine) check(s *State, c *Term) string {
	if c == True {
		return e.Solver.Check(s.PC, nil)
	}
	if c == False {
		return "unsat"
	}
	return e.Solver.Check(s.PC, c)
}

func (e *Engine) assume(s *State, c *Term) {
	if c != True {
		s.PC = append(s.PC, c)
	}
}

func (e *Engine) doIf(s *State, f *Frame, x *ssa.If, budget *int, depth int) *State {
	cv := e.get(s, f, x.Cond)
	c, ok := cv.(*Term)
	if !ok {
		unsupp("branch on %T", cv)
	}
	tb, fb := f.Block.Succs[0], f.Block.Succs[1]
	if c == True {
		e.jump(s, f, tb)
		return s
	}
	if c == False {
		e.jump(s, f, fb)
		return s
	}
	e.Branches++
	if e.Verbose {
		e.BranchSites[e.instrPos(s, x)+" "+f.Fn.Name()]++
	}
	rt, rf := e.Solver.Check2(s.PC, c, Not(c))
	if rt == "unknown" || rf == "unknown" {
		e.Stats["branch-unknown"]++
	}
	ft, ff := rt != "unsat", rf != "unsat"
	if ft != ff && s.TripBound > 0 {
		// the solver forces this branch: count forced iterations at loop tests, so that a loop
		// whose trip count is out of proportion to the input is reported rather than run
		if ji := e.joinOf(x.Block()); !ji.ok {
			f.Visits[-1-f.Block.Index]++
			if f.Visits[-1-f.Block.Index] > s.TripBound {
				e.violate(s, "unwind", fmt.Sprintf("loop forced to run more than %d iterations", s.TripBound), nil, x)
				s.Status = "unwind: trip bound"
				return s
			}
		}
	}
	switch {
	case ft && !ff:
		e.jump(s, f, tb)
		return s
	case ff && !ft:
		e.jump(s, f, fb)
		return s
	case !ft && !ff:
		s.Status = "infeasible"
		return s
	}
	s.Forks++
	// unwinding counter: symbolic decisions taken at this block in this frame
	ji := e.joinOf(x.Block())
	if !ji.ok {
		f.Visits[f.Block.Index]++
	}
	if f.Visits[f.Block.Index] > s.Unwind && s.UnwindCut {
		e.Stats["paths-cut-at-unwinding-bound"]++
		s.Status = "unwind-cut"
		return s
	}
	if f.Visits[f.Block.Index] > s.Unwind {
		s.Status = fmt.Sprintf("unwind: bound %d exceeded at %s in %s", s.Unwind, e.instrPos(s, x), f.Fn.String())
		return s
	}
	prefix := len(s.PC)
	o := s.Clone()
	f = s.top() // s.Clone marked frames shared
	of := o.top()
	o.PC = append(o.PC, Not(c))
	e.jump(o, of, fb)
	s.PC = append(s.PC, c)
	e.jump(s, f, tb)
	if !e.MergeOn || !ji.ok || depth >= 8 {
		e.Pending = append(e.Pending, o, s)
		return nil
	}
	var b int
	if budget == nil {
		b = e.MergeBud
		budget = &b
	}
	stop := &stopCond{depth: len(s.Frames), block: ji.join}
	if ji.join != nil {
		stop.pc = firstNonPhi(ji.join)
	}
	r := e.explore([]*State{o, s}, stop, budget, depth+1)
	if len(r.stopped) >= 2 {
		if m := e.mergeStates(prefix, r.stopped); m != nil {
			e.Stats["merges"]++
			r.stopped = []*State{m}
		} else {
			e.Stats["merge-fail"]++
		}
	}
	if len(r.stopped) == 1 && len(r.live) == 0 {
		return r.stopped[0]
	}
	e.Pending = append(e.Pending, r.live...)
	e.Pending = append(e.Pending, r.stopped...)
	return nil
}

func firstNonPhi(b *ssa.BasicBlock) int {
	for i, in := range b.Instrs {
		if _, ok := in.(*ssa.Phi); !ok {
			return i
		}
	}
	return len(b.Instrs)
}

func (e *Engine) jump(s *State, f *Frame, to *ssa.BasicBlock) {
	f.Prev = f.Block
	f.Block = to
	f.PC = 0
	var phiVals []Value
	var phis []*ssa.Phi
	for _, in := range to.Instrs {
		phi, ok := in.(*ssa.Phi)
		if !ok {
			break
		}
		for i, p := range to.Preds {
			if p == f.Prev {
				phiVals = append(phiVals, e.get(s, f, phi.Edges[i]))
				phis = append(phis, phi)
				break
			}
		}
		f.PC++
	}
	for i, phi := range phis {
		f.Locals[phi] = phiVals[i]
	}
}

func (e *Engine) pushFrame(s *State, fn *ssa.Function, args []Value, bind []Value, call ssa.Value) *Frame {
	if len(fn.Blocks) == 0 {
		unsupp("call to function without body %s", fn.String())
	}
	if len(s.Frames) > 200 {
		unsupp("call depth exceeded in %s", fn.String())
	}
	e.FuncsHit[fn] = true
	f := &Frame{Fn: fn, Block: fn.Blocks[0], Locals: make(map[ssa.Value]Value, 16), Visits: map[int]int{}, Call: call, owned: true}
	if len(args) != len(fn.Params) {
		unsupp("arity mismatch calling %s: %d args for %d params", fn.String(), len(args), len(fn.Params))
	}
	for i, p := range fn.Params {
		f.Locals[p] = args[i]
	}
	for i, fv := range fn.FreeVars {
		f.Locals[fv] = bind[i]
	}
	s.Frames = append(s.Frames, f)
	return f
}

func (e *Engine) ret(s *State, results []Value) {
	f := s.Frames[len(s.Frames)-1]
	s.Frames = s.Frames[:len(s.Frames)-1]
	var rv Value
	switch len(results) {
	case 0:
		rv = nil
	case 1:
		rv = results[0]
	default:
		rv = TupleV(results)
	}
	if len(s.Frames) == 0 {
		if len(s.Parked) > 0 {
			e.threadExit(s)
			return
		}
		s.Status = "done"
		s.Ret = rv
		return
	}
	if f.Call != nil && !f.Drop {
		s.top().Locals[f.Call] = rv
	}
}

func (e *Engine) load(s *State, p PtrV) Value {
	root, ok := e.heapGet(s, p.Obj)
	if !ok {
		unsupp("load of unknown object %d", p.Obj)
	}
	return getPath(root, p.Path)
}

func (e *Engine) store(s *State, p PtrV, v Value) {
	root, ok := e.heapGet(s, p.Obj)
	if !ok {
		unsupp("store to unknown object %d", p.Obj)
	}
	s.Heap[p.Obj] = setPath(root, p.Path, v)
}

func (e *Engine) get(s *State, f *Frame, v ssa.Value) Value {
	switch x := v.(type) {
	case *ssa.Const:
		return e.constVal(x)
	case *ssa.Function:
		return FuncV{Fn: x}
	case *ssa.Global:
		return e.global(s, x)
	case *ssa.Builtin:
		return x
	}
	r, ok := f.Locals[v]
	if !ok {
		unsupp("no value for %s (%T) in %s", v.Name(), v, f.Fn)
	}
	return r
}

func (e *Engine) constVal(c *ssa.Const) Value {
	t := c.Type()
	if c.Value == nil {
		return zeroValue(t)
	}
	if w, _, ok := intWidth(t); ok {
		bi, ok := new(big.Int).SetString(constant.ToInt(c.Value).ExactString(), 10)
		if !ok {
			unsupp("integer constant %v", c)
		}
		return BVConst(bi, w)
	}
	if b, ok := t.Underlying().(*types.Basic); ok {
		switch b.Kind() {
		case types.Bool, types.UntypedBool:
			return Bool(constant.BoolVal(c.Value))
		case types.String, types.UntypedString:
			return StrV{constant.StringVal(c.Value)}
		case types.Float32, types.Float64, types.UntypedFloat:
			return UnknownV{"float constant"}
		}
	}
	unsupp("const %v of type %v", c, t)
	return nil
}

const perSite = 3

// sitesFull: every failing site seen so far already has its perSite counterexamples.
func (e *Engine) sitesFull() bool {
	for _, n := range e.seenFind {
		if n < perSite {
			return false
		}
	}
	return true
}

// violate records a finding with a model of pc ∧ extra.
func (e *Engine) violate(s *State, kind, msg string, extra *Term, in ssa.Instruction) {
	pos := e.instrPos(s, in)
	fn := e.innermostRepoFunc(s)
	keyS := kind + "|" + msg + "|" + pos + "|" + fn
	if e.seenFind == nil {
		e.seenFind = map[string]int{}
	}
	// up to perSite counterexamples (from different paths) are kept for one failing site: the first
	// model may be one that a native replay cannot follow (a collision of an uninterpreted hash),
	// while a later one reproduces
	if e.seenFind[keyS] >= perSite {
		e.Stats["dup-findings"]++
		return
	}
	m, arrays, ok := e.model(s, extra)
	if !ok {
		e.incon(fmt.Sprintf("model extraction failed for %s finding %q at %s", kind, msg, pos))
		return
	}
	e.seenFind[keyS]++
	pcx := s.PC
	if extra != nil {
		pcx = append(append([]*Term(nil), s.PC...), extra)
	}
	e.Findings = append(e.Findings, Finding{Kind: kind, Msg: msg, Pos: pos, Func: fn, Stack: e.stack(s), Model: m, Arrays: arrays, Reach: append([]string(nil), s.Reach...), Sched: append([]int(nil), s.Sched...), UF: e.ufTable(pcx, m)})
}

func (e *Engine) model(s *State, extra *Term) (map[string]string, map[string][]int, bool) {
	var sels [][2]*Term
	type ent struct {
		name string
		n    int
	}
	var ents []ent
	for name, arr := range e.arrNames {
		// materialise up to the concrete length, or up to the model's length (bounded)
		n := 0
		if c, ok := cint(e.arrLens[name]); ok {
			n = c
		} else {
			n = -1
		}
		ents = append(ents, ent{name, n})
		_ = arr
	}
	// first pass: scalar vars (gives symbolic lengths)
	m, ok := e.Solver.Model(s.PC, extra, varOrder, nil)
	if !ok {
		return nil, nil, false
	}
	arrays := map[string][]int{}
	// pin scalars so array cells come from the same model
	pc2 := append([]*Term(nil), s.PC...)
	if extra != nil {
		pc2 = append(pc2, extra)
	}
	var pins []*Term
	for _, v := range varOrder {
		if lit, ok := m[v.Name]; ok && v.Sort.Kind != 2 {
			if u, ok := litToUint(lit); ok {
				if v.Sort.Kind == 0 {
					pins = append(pins, Eq(v, Bool(u != 0)))
				} else if v.Sort.Width <= 64 {
					pins = append(pins, Eq(v, BVUint(u, v.Sort.Width)))
				}
			}
		}
	}
	for _, en := range ents {
		n := en.n
		if n < 0 {
			lt := e.arrLens[en.name]
			// evaluate the length under the model
			if lt.Op == "var" {
				if u, ok := litToUint(m[lt.Name]); ok {
					n = int(u)
				}
			}
			if n < 0 || n > 1<<16 {
				n = 0
			}
		}
		if n > 1<<16 {
			n = 1 << 16
		}
		for i := 0; i < n; i++ {
			sels = append(sels, [2]*Term{e.arrNames[en.name], I64(i)})
		}
	}
	if len(sels) > 0 {
		m2, ok := e.Solver.Model(append(pc2, pins...), nil, nil, sels)
		if !ok {
			return nil, nil, false
		}
		k := 0
		for _, en := range ents {
			n := en.n
			if n < 0 {
				lt := e.arrLens[en.name]
				if lt.Op == "var" {
					if u, ok := litToUint(m[lt.Name]); ok {
						n = int(u)
					}
				}
				if n < 0 || n > 1<<16 {
					n = 0
				}
			}
			if n > 1<<16 {
				n = 1 << 16
			}
			vals := make([]int, n)
			for i := 0; i < n; i++ {
				g := sels[k]
				k++
				if u, ok := litToUint(m2[g[0].ref()+"["+g[1].ref()+"]"]); ok {
					vals[i] = int(u)
				}
			}
			arrays[en.name] = vals
		}
	}
	return m, arrays, true
}

// panicIf forks a panicking path when cond may hold and continues with !cond. Returns false if
// the current path is dead.
func (e *Engine) panicIf(s *State, cond *Term, msg string, in ssa.Instruction) bool {
	if cond == False {
		return true
	}
	r := e.check(s, cond)
	if r == "unknown" {
		e.incon("solver unknown on panic condition (" + msg + ") at " + e.instrPos(s, in))
	}
	if r == "sat" {
		e.panicFinding(s, msg, cond, in)
	}
	nc := Not(cond)
	if cond == True || !e.feasible(s, nc) {
		if r == "unsat" {
			s.Status = "infeasible" // neither side satisfiable: the path condition itself is unsat
		} else {
			s.Status = "panic: " + msg
		}
		return false
	}
	e.assume(s, nc)
	return true
}

func (e *Engine) panicFinding(s *State, msg string, cond *Term, in ssa.Instruction) {
	e.Stats["panic-paths"]++
	if e.initing {
		return
	}
	e.violate(s, "panic", msg, cond, in)
}

func (e *Engine) panicNow(s *State, msg string, in ssa.Instruction) {
	e.panicFinding(s, msg, nil, in)
	s.Status = "panic: " + msg
}

func idx64(t *Term, ty types.Type) *Term {
	if t.Sort.Width == 64 {
		return t
	}
	_, sg, _ := intWidth(ty)
	if sg {
		return SignExt(64-t.Sort.Width, t)
	}
	return ZeroExt(64-t.Sort.Width, t)
}

func (e *Engine) indexElem(s *State, idx *Term, length *Term, base *Term, in ssa.Instruction) (PathElem, bool) {
	oob := Not(And(BVCmp("bvsge", idx, I64(0)), BVCmp("bvslt", idx, length)))
	if !e.panicIf(s, oob, "index out of range", in) {
		return PathElem{}, false
	}
	t := BVBin("bvadd", base, idx)
	if c, ok := cint(t); ok {
		return PathElem{Idx: c}, true
	}
	return PathElem{Sym: t}, true
}

func (e *Engine) step(s *State, f *Frame, in ssa.Instruction) {
	switch x := in.(type) {
	case *ssa.Alloc:
		id := e.alloc(s, zeroValue(x.Type().(*types.Pointer).Elem()))
		f.Locals[x] = PtrV{Obj: id}
	case *ssa.Store:
		p, ok := e.get(s, f, x.Addr).(PtrV)
		if !ok {
			unsupp("store through %T", e.get(s, f, x.Addr))
		}
		if p.Obj == 0 {
			e.panicNow(s, "nil pointer dereference (store)", x)
			return
		}
		e.store(s, p, e.get(s, f, x.Val))
	case *ssa.UnOp:
		v := e.unop(s, f, x)
		if s.Status == "" {
			f.Locals[x] = v
		}
	case *ssa.BinOp:
		v := e.binop(s, x.Op, e.get(s, f, x.X), e.get(s, f, x.Y), x.X.Type(), x.Y.Type(), x)
		if s.Status == "" {
			f.Locals[x] = v
		}
	case *ssa.FieldAddr:
		p, ok := e.get(s, f, x.X).(PtrV)
		if !ok {
			unsupp("FieldAddr on %T", e.get(s, f, x.X))
		}
		if p.Obj == 0 {
			e.panicNow(s, "nil pointer dereference (field)", x)
			return
		}
		f.Locals[x] = PtrV{Obj: p.Obj, Path: extendPath(p.Path, PathElem{Idx: x.Field})}
	case *ssa.Field:
		sv, ok := e.get(s, f, x.X).(*StructV)
		if !ok {
			unsupp("Field on %T", e.get(s, f, x.X))
		}
		f.Locals[x] = sv.F[x.Field]
	case *ssa.IndexAddr:
		it, ok := e.get(s, f, x.Index).(*Term)
		if !ok {
			unsupp("index %T", e.get(s, f, x.Index))
		}
		idx := idx64(it, x.Index.Type())
		switch b := e.get(s, f, x.X).(type) {
		case PtrV:
			if b.Obj == 0 {
				e.panicNow(s, "nil pointer dereference (array)", x)
				return
			}
			n := int(x.X.Type().Underlying().(*types.Pointer).Elem().Underlying().(*types.Array).Len())
			el, ok := e.indexElem(s, idx, I64(n), I64(0), x)
			if !ok {
				return
			}
			f.Locals[x] = PtrV{Obj: b.Obj, Path: extendPath(b.Path, el)}
		case SliceV:
			el, ok := e.indexElem(s, idx, b.Len, b.Off, x)
			if !ok {
				return
			}
			f.Locals[x] = PtrV{Obj: b.Obj, Path: extendPath(b.Path, el)}
		default:
			unsupp("IndexAddr on %T", b)
		}
	case *ssa.Index:
		it, ok := e.get(s, f, x.Index).(*Term)
		if !ok {
			unsupp("index %T", e.get(s, f, x.Index))
		}
		idx := idx64(it, x.Index.Type())
		switch b := e.get(s, f, x.X).(type) {
		case *ArrayV:
			el, ok := e.indexElem(s, idx, I64(len(b.E)), I64(0), x)
			if !ok {
				return
			}
			f.Locals[x] = getPath(b, []PathElem{el})
		case StrV, SymStr:
			cells, _ := strCells(b)
			el, ok := e.indexElem(s, idx, I64(len(cells)), I64(0), x)
			if !ok {
				return
			}
			if el.Sym != nil {
				var r *Term = BVInt(0, 8)
				for i := len(cells) - 1; i >= 0; i-- {
					r = Ite(Eq(el.Sym, BVInt(int64(i), 64)), cells[i], r)
				}
				f.Locals[x] = r
			} else {
				f.Locals[x] = cells[el.Idx]
			}
		default:
			unsupp("Index on %T", b)
		}
	case *ssa.Slice:
		v := e.slice(s, f, x)
		if s.Status == "" {
			f.Locals[x] = v
		}
	case *ssa.MakeSlice:
		e.makeSlice(s, f, x)
	case *ssa.Call:
		e.call(s, f, x)
	case *ssa.Extract:
		tv, ok := e.get(s, f, x.Tuple).(TupleV)
		if !ok {
			if u, isU := e.get(s, f, x.Tuple).(UnknownV); isU {
				f.Locals[x] = u
				return
			}
			unsupp("Extract from %T", e.get(s, f, x.Tuple))
		}
		f.Locals[x] = tv[x.Index]
	case *ssa.Jump:
		e.jump(s, f, f.Block.Succs[0])
	case *ssa.Return:
		rs := make([]Value, len(x.Results))
		for i, r := range x.Results {
			rs[i] = e.get(s, f, r)
		}
		e.ret(s, rs)
	case *ssa.ChangeType:
		f.Locals[x] = e.get(s, f, x.X)
	case *ssa.Convert:
		v := e.get(s, f, x.X)
		if sl, ok := v.(SliceV); ok && sl.Obj != 0 {
			if _, conc := cint(sl.Len); !conc {
				if b, isStr := x.Type().Underlying().(*types.Basic); isStr && b.Kind() == types.String {
					// string(bytes) with a symbolic length: one path per feasible length
					vals, complete := e.enumValues(s, sl.Len, 64)
					if !complete {
						unsupp("string conversion of a slice whose length has more than 64 feasible values")
					}
					if len(vals) == 0 {
						s.Status = "infeasible"
						return
					}
					for i, n := range vals {
						st := s
						if i > 0 {
							st = s.Clone()
						}
						st.PC = append(st.PC, Eq(sl.Len, I64(n)))
						pinned := sl
						pinned.Len = I64(n)
						st.top().Locals[x] = e.convert(st, pinned, x.X.Type(), x.Type(), x)
						if i > 0 {
							e.Pending = append(e.Pending, st)
						}
					}
					s.top()
					return
				}
			}
		}
		f.Locals[x] = e.convert(s, v, x.X.Type(), x.Type(), x)
	case *ssa.MultiConvert:
		f.Locals[x] = e.convert(s, e.get(s, f, x.X), x.X.Type(), x.Type(), x)
	case *ssa.MakeInterface:
		f.Locals[x] = IfaceV{T: x.X.Type(), V: e.get(s, f, x.X)}
	case *ssa.ChangeInterface:
		f.Locals[x] = e.get(s, f, x.X)
	case *ssa.SliceToArrayPointer:
		sl := e.get(s, f, x.X).(SliceV)
		n := x.Type().Underlying().(*types.Pointer).Elem().Underlying().(*types.Array).Len()
		if !e.panicIf(s, BVCmp("bvslt", sl.Len, I64(int(n))), "slice to array pointer: length too short", x) {
			return
		}
		if sl.Obj == 0 {
			f.Locals[x] = PtrV{}
			return
		}
		off, ok := cint(sl.Off)
		if !ok || off != 0 || len(sl.Path) != 0 {
			// represent as a pointer to a fresh copy (aliasing lost): only reads are sound
			els := e.sliceElemsN(s, sl, int(n))
			id := e.alloc(s, &ArrayV{els})
			f.Locals[x] = PtrV{Obj: id}
			e.Stats["slice2arrptr-copy"]++
			return
		}
		f.Locals[x] = PtrV{Obj: sl.Obj, Path: sl.Path}
	case *ssa.MakeClosure:
		b := make([]Value, len(x.Bindings))
		for i, bv := range x.Bindings {
			b[i] = e.get(s, f, bv)
		}
		f.Locals[x] = FuncV{Fn: x.Fn.(*ssa.Function), Bind: b}
	case *ssa.MakeMap:
		id := e.alloc(s, &MapObj{})
		f.Locals[x] = MapV{Obj: id}
	case *ssa.MapUpdate:
		m, ok := e.get(s, f, x.Map).(MapV)
		if !ok {
			unsupp("MapUpdate on %T", e.get(s, f, x.Map))
		}
		e.mapUpdate(s, m, e.get(s, f, x.Key), e.get(s, f, x.Value), x)
	case *ssa.Lookup:
		e.lookup(s, f, x)
	case *ssa.TypeAssert:
		e.typeAssert(s, f, x)
	case *ssa.Range:
		e.rangeInit(s, f, x)
	case *ssa.Next:
		e.rangeNext(s, f, x)
	case *ssa.Defer:
		e.deferCall(s, f, x)
	case *ssa.RunDefers:
		if n := len(f.Defers); n > 0 {
			d := f.Defers[n-1]
			f.Defers = f.Defers[:n-1]
			f.PC-- // come back here after the deferred call returns
			e.invokeValue(s, f, nil, d.Fn, d.Args, in)
		}
	case *ssa.Panic:
		e.panicNow(s, "explicit panic", x)
	case *ssa.MakeChan:
		id := e.alloc(s, &StructV{})
		f.Locals[x] = ChanV{Obj: id}
	case *ssa.Go:
		unsupp("go statement")
	case *ssa.Select:
		e.selectStmt(s, f, x)
	case *ssa.Send:
		unsupp("channel send")
	case *ssa.DebugRef:
	case *ssa.Phi:
		unsupp("phi reached in step")
	default:
		unsupp("instruction %T", in)
	}
}

func (e *Engine) makeSlice(s *State, f *Frame, x *ssa.MakeSlice) {
	n := idx64(e.get(s, f, x.Len).(*Term), x.Len.Type())
	c := idx64(e.get(s, f, x.Cap).(*Term), x.Cap.Type())
	et := x.Type().Underlying().(*types.Slice).Elem()
	if !e.panicIf(s, Or(BVCmp("bvslt", n, I64(0)), BVCmp("bvsgt", n, c)), "makeslice: len out of range", x) {
		return
	}
	if !e.noteAlloc(s, c, et, x) {
		return
	}
	f.Locals[x] = e.newSlice(s, n, c, et)
}

// newSlice allocates a zeroed slice; concrete small capacities use cells, others SMT arrays.
func (e *Engine) newSlice(s *State, n, c *Term, et types.Type) SliceV {
	cp, okc := cint(c)
	if okc && (cp <= 4096 || !isByte(et)) {
		if cp > 1<<20 {
			unsupp("allocation of %d non-byte elements", cp)
		}
		arr := make([]Value, cp)
		z := zeroValue(et)
		for i := range arr {
			arr[i] = z
		}
		id := e.alloc(s, &ArrayV{arr})
		return SliceV{Obj: id, Off: I64(0), Len: n, Cap: c}
	}
	if !isByte(et) {
		unsupp("symbolic-length make of non-byte slice")
	}
	id := e.alloc(s, &SymArrV{Arr: zeroArr, Len: c})
	return SliceV{Obj: id, Off: I64(0), Len: n, Cap: c}
}

func sizeofType(t types.Type) int64 {
	sz := types.SizesFor("gc", "amd64").Sizeof(t)
	if sz <= 0 {
		return 1
	}
	return sz
}

// noteAlloc adds count*sizeof(elem) to the ghost allocation counter and checks the budget.
func (e *Engine) noteAlloc(s *State, count *Term, et types.Type, in ssa.Instruction) bool {
	sz := BVBin("bvmul", count, I64(int(sizeofType(et))))
	if s.Alloc == nil {
		s.Alloc = I64(0)
	}
	s.Alloc = BVBin("bvadd", s.Alloc, sz)
	if s.Budget != nil {
		over := Or(BVCmp("bvugt", sz, s.Budget), BVCmp("bvugt", s.Alloc, s.Budget))
		r := e.check(s, over)
		if r == "unknown" {
			e.incon("solver unknown on allocation budget at " + e.instrPos(s, in))
		}
		if r == "sat" {
			e.violate(s, "alloc", "allocation exceeds budget", over, in)
			if !e.feasible(s, Not(over)) {
				s.Status = "alloc: over budget"
				return false
			}
			e.assume(s, Not(over))
		}
	}
	return true
}

func (e *Engine) unop(s *State, f *Frame, x *ssa.UnOp) Value {
	v := e.get(s, f, x.X)
	if u, ok := v.(UnknownV); ok {
		if x.Op == token.MUL {
			unsupp("dereference of unknown value (%s)", u.Why)
		}
		return u
	}
	switch x.Op {
	case token.MUL:
		p, ok := v.(PtrV)
		if !ok {
			unsupp("deref of %T", v)
		}
		if p.Obj == 0 {
			e.panicNow(s, "nil pointer dereference", x)
			return nil
		}
		return e.load(s, p)
	case token.NOT:
		return Not(v.(*Term))
	case token.SUB:
		t := v.(*Term)
		return BVBin("bvsub", BVInt(0, t.Sort.Width), t)
	case token.XOR:
		t := v.(*Term)
		return BVBin("bvxor", t, BVConst(mask(t.Sort.Width), t.Sort.Width))
	case token.ARROW:
		// receive: only ctx.Done()/time.After style channels; handled in select
		unsupp("channel receive")
	}
	unsupp("unop %s", x.Op)
	return nil
}

func (e *Engine) binop(s *State, op token.Token, a, b Value, t, tb types.Type, x ssa.Instruction) Value {
	if u, ok := a.(UnknownV); ok {
		return u
	}
	if u, ok := b.(UnknownV); ok {
		return u
	}
	switch av := a.(type) {
	case *Term:
		bv, ok := b.(*Term)
		if !ok {
			unsupp("binop %s on *Term and %T", op, b)
		}
		if av.Sort.Kind == 0 {
			switch op {
			case token.EQL:
				return Eq(av, bv)
			case token.NEQ:
				return Not(Eq(av, bv))
			case token.LAND, token.AND:
				return And(av, bv)
			case token.LOR, token.OR:
				return Or(av, bv)
			}
			unsupp("bool binop %s", op)
		}
		_, sg, _ := intWidth(t)
		pick := func(u, sgn string) string {
			if sg {
				return sgn
			}
			return u
		}
		switch op {
		case token.ADD:
			return BVBin("bvadd", av, bv)
		case token.SUB:
			return BVBin("bvsub", av, bv)
		case token.MUL:
			return BVBin("bvmul", av, bv)
		case token.QUO, token.REM:
			if av.Sort.Width != bv.Sort.Width {
				unsupp("operand widths differ (%d vs %d) at %s in %s", av.Sort.Width, bv.Sort.Width, e.Prog.Fset.Position(x.Pos()), x.Parent())
			}
			if !e.panicIf(s, Eq(bv, BVInt(0, bv.Sort.Width)), "integer divide by zero", x) {
				return nil
			}
			if op == token.QUO {
				return BVBin(pick("bvudiv", "bvsdiv"), av, bv)
			}
			return BVBin(pick("bvurem", "bvsrem"), av, bv)
		case token.AND:
			return BVBin("bvand", av, bv)
		case token.OR:
			return BVBin("bvor", av, bv)
		case token.XOR:
			return BVBin("bvxor", av, bv)
		case token.AND_NOT:
			return BVBin("bvand", av, BVBin("bvxor", bv, BVConst(mask(bv.Sort.Width), bv.Sort.Width)))
		case token.SHL, token.SHR:
			w := av.Sort.Width
			cnt := bv
			_, csg, _ := intWidth(tb)
			if csg {
				if !e.panicIf(s, BVCmp("bvslt", cnt, BVInt(0, cnt.Sort.Width)), "negative shift amount", x) {
					return nil
				}
			}
			if cnt.Sort.Width < w {
				cnt = ZeroExt(w-cnt.Sort.Width, cnt)
			} else if cnt.Sort.Width > w {
				big := BVCmp("bvuge", cnt, BVInt(int64(w), cnt.Sort.Width))
				low := Extract(w-1, 0, cnt)
				cnt = Ite(big, BVInt(int64(w), w), low)
			}
			if op == token.SHL {
				return BVBin("bvshl", av, cnt)
			}
			return BVBin(pick("bvlshr", "bvashr"), av, cnt)
		case token.EQL:
			return Eq(av, bv)
		case token.NEQ:
			return Not(Eq(av, bv))
		case token.LSS:
			return BVCmp(pick("bvult", "bvslt"), av, bv)
		case token.LEQ:
			return BVCmp(pick("bvule", "bvsle"), av, bv)
		case token.GTR:
			return BVCmp(pick("bvugt", "bvsgt"), av, bv)
		case token.GEQ:
			return BVCmp(pick("bvuge", "bvsge"), av, bv)
		}
	case StrV, SymStr:
		switch op {
		case token.EQL:
			return e.strEq(a, b)
		case token.NEQ:
			return Not(e.strEq(a, b))
		case token.ADD:
			ca, _ := strCells(a)
			cb, ok := strCells(b)
			if !ok {
				unsupp("string concat with %T", b)
			}
			return mkStr(append(append([]*Term(nil), ca...), cb...))
		case token.LSS, token.LEQ, token.GTR, token.GEQ:
			return e.strLess(op, a, b)
		}
	case PtrV:
		bv, ok := b.(PtrV)
		if !ok {
			unsupp("pointer compared with %T", b)
		}
		same := av.Obj == bv.Obj && pathEq(av.Path, bv.Path)
		if !same && av.Obj == bv.Obj && av.Obj != 0 {
			// same object, syntactically different paths: decide symbolic indices
			same2, ok := pathEqSym(av.Path, bv.Path)
			if !ok {
				unsupp("pointer comparison with incomparable paths")
			}
			if op == token.EQL {
				return same2
			}
			return Not(same2)
		}
		if op == token.EQL {
			return Bool(same)
		}
		return Bool(!same)
	case IfaceV:
		bv, ok := b.(IfaceV)
		if !ok {
			unsupp("interface compared with %T", b)
		}
		var r *Term
		if av.T == nil || bv.T == nil {
			r = Bool(av.T == nil && bv.T == nil)
		} else if !types.Identical(av.T, bv.T) {
			r = False
		} else {
			if !types.Comparable(av.T) {
				e.panicNow(s, "comparing uncomparable type "+av.T.String(), x)
				return nil
			}
			rv := e.binop(s, token.EQL, av.V, bv.V, av.T, bv.T, x)
			if rv == nil {
				return nil
			}
			if u, ok := rv.(UnknownV); ok {
				return u
			}
			r = rv.(*Term)
		}
		if op == token.EQL {
			return r
		}
		return Not(r)
	case SliceV:
		bv := b.(SliceV)
		// only comparison with nil is legal Go
		var r *Term
		if bv.Obj == 0 && bv.Len.IsConst() {
			r = Bool(av.Obj == 0)
		} else {
			r = Bool(bv.Obj == 0 && av.Obj == 0)
		}
		if op == token.EQL {
			return r
		}
		return Not(r)
	case MapV:
		bv := b.(MapV)
		eq := av.Obj == bv.Obj
		if op == token.EQL {
			return Bool(eq)
		}
		return Bool(!eq)
	case ChanV:
		bv := b.(ChanV)
		eq := av.Obj == bv.Obj
		if op == token.EQL {
			return Bool(eq)
		}
		return Bool(!eq)
	case FuncV:
		bf := b.(FuncV)
		eq := av.Fn == nil && av.Native == "" && bf.Fn == nil && bf.Native == ""
		if op == token.EQL {
			return Bool(eq)
		}
		return Bool(!eq)
	case *StructV:
		bv := b.(*StructV)
		st := t.Underlying().(*types.Struct)
		r := True
		for i := range av.F {
			c := e.binop(s, token.EQL, av.F[i], bv.F[i], st.Field(i).Type(), st.Field(i).Type(), x)
			if u, ok := c.(UnknownV); ok {
				return u
			}
			r = And(r, c.(*Term))
		}
		if op == token.EQL {
			return r
		}
		return Not(r)
	case *ArrayV:
		bv := b.(*ArrayV)
		et := t.Underlying().(*types.Array).Elem()
		r := True
		for i := range av.E {
			c := e.binop(s, token.EQL, av.E[i], bv.E[i], et, et, x)
			if u, ok := c.(UnknownV); ok {
				return u
			}
			r = And(r, c.(*Term))
		}
		if op == token.EQL {
			return r
		}
		return Not(r)
	}
	unsupp("binop %s on %T", op, a)
	return nil
}

func pathEqSym(a, b []PathElem) (*Term, bool) {
	if len(a) != len(b) {
		return False, true
	}
	r := True
	for i := range a {
		x, y := a[i], b[i]
		switch {
		case x.Sym == nil && y.Sym == nil:
			if x.Idx != y.Idx {
				return False, true
			}
		default:
			xt, yt := x.Sym, y.Sym
			if xt == nil {
				xt = I64(x.Idx)
			}
			if yt == nil {
				yt = I64(y.Idx)
			}
			r = And(r, Eq(xt, yt))
		}
	}
	return r, true
}

func (e *Engine) strEq(a, b Value) *Term {
	ca, ok1 := strCells(a)
	cb, ok2 := strCells(b)
	if !ok1 || !ok2 {
		unsupp("string equality on %T/%T", a, b)
	}
	if len(ca) != len(cb) {
		return False
	}
	r := True
	for i := range ca {
		r = And(r, cellEq(ca[i], cb[i]))
	}
	return r
}

func (e *Engine) strLess(op token.Token, a, b Value) *Term {
	ca, ok1 := strCells(a)
	cb, ok2 := strCells(b)
	if !ok1 || !ok2 {
		unsupp("string order on %T/%T", a, b)
	}
	// lexicographic a < b
	n := len(ca)
	if len(cb) < n {
		n = len(cb)
	}
	lt := Bool(len(ca) < len(cb)) // all common bytes equal
	for i := n - 1; i >= 0; i-- {
		lt = Ite(Eq(ca[i], cb[i]), lt, BVCmp("bvult", ca[i], cb[i]))
	}
	eq := e.strEq(a, b)
	switch op {
	case token.LSS:
		return lt
	case token.LEQ:
		return Or(lt, eq)
	case token.GTR:
		return And(Not(lt), Not(eq))
	default:
		return Not(lt)
	}
}

func (e *Engine) convert(s *State, v Value, from, to types.Type, in ssa.Instruction) Value {
	if u, ok := v.(UnknownV); ok {
		return u
	}
	if fw, fs, ok := intWidth(from); ok {
		if tw, _, ok2 := intWidth(to); ok2 {
			t := v.(*Term)
			switch {
			case tw == fw:
				return t
			case tw < fw:
				return Extract(tw-1, 0, t)
			case fs:
				return SignExt(tw-fw, t)
			default:
				return ZeroExt(tw-fw, t)
			}
		}
		if b, ok := to.Underlying().(*types.Basic); ok {
			if b.Kind() == types.String {
				t := v.(*Term)
				if c, ok := cint(t); ok {
					return StrV{string(rune(c))}
				}
				unsupp("string(symbolic rune)")
			}
			if b.Info()&types.IsFloat != 0 {
				return UnknownV{"float conversion"}
			}
		}
	}
	if fb, ok := from.Underlying().(*types.Basic); ok && fb.Info()&types.IsFloat != 0 {
		return UnknownV{"float conversion"}
	}
	_, fromStr := v.(StrV)
	_, fromSym := v.(SymStr)
	if fromStr || fromSym {
		if sl, ok := to.Underlying().(*types.Slice); ok {
			cells, _ := strCells(v)
			if isByte(sl.Elem()) {
				arr := make([]Value, len(cells))
				for i := range arr {
					arr[i] = cells[i]
				}
				id := e.alloc(s, &ArrayV{arr})
				return SliceV{Obj: id, Off: I64(0), Len: I64(len(arr)), Cap: I64(len(arr))}
			}
			// []rune
			sv, ok := v.(StrV)
			if !ok {
				unsupp("[]rune(symbolic string)")
			}
			rs := []rune(sv.S)
			arr := make([]Value, len(rs))
			for i := range arr {
				arr[i] = BVInt(int64(rs[i]), 32)
			}
			id := e.alloc(s, &ArrayV{arr})
			return SliceV{Obj: id, Off: I64(0), Len: I64(len(arr)), Cap: I64(len(arr))}
		}
		return v
	}
	if sl, ok := v.(SliceV); ok {
		if b, ok := to.Underlying().(*types.Basic); ok && b.Kind() == types.String {
			if st, ok := from.Underlying().(*types.Slice); ok && !isByte(st.Elem()) {
				els := e.sliceElems(s, sl)
				rs := make([]rune, len(els))
				for i, el := range els {
					c, ok := cint(el.(*Term))
					if !ok {
						unsupp("string([]rune) with symbolic runes")
					}
					rs[i] = rune(c)
				}
				return StrV{string(rs)}
			}
			els := e.sliceElems(s, sl)
			cells := make([]*Term, len(els))
			for i, el := range els {
				cells[i] = el.(*Term)
			}
			return mkStr(cells)
		}
	}
	if _, ok := v.(PtrV); ok {
		return v // unsafe.Pointer conversions keep the reference
	}
	unsupp("convert %v -> %v (%T)", from, to, v)
	return nil
}

func (e *Engine) slice(s *State, f *Frame, x *ssa.Slice) Value {
	getT := func(v ssa.Value, def *Term) *Term {
		if v == nil {
			return def
		}
		t, ok := e.get(s, f, v).(*Term)
		if !ok {
			unsupp("slice bound %T", e.get(s, f, v))
		}
		return idx64(t, v.Type())
	}
	check := func(lo, hi, mx, cp *Term) bool {
		bad := Not(And(And(BVCmp("bvsle", I64(0), lo), BVCmp("bvsle", lo, hi)), And(BVCmp("bvsle", hi, mx), BVCmp("bvsle", mx, cp))))
		return e.panicIf(s, bad, "slice bounds out of range", x)
	}
	switch b := e.get(s, f, x.X).(type) {
	case PtrV:
		if b.Obj == 0 {
			e.panicNow(s, "nil pointer dereference (slice of array pointer)", x)
			return nil
		}
		n := I64(int(x.X.Type().Underlying().(*types.Pointer).Elem().Underlying().(*types.Array).Len()))
		lo, hi := getT(x.Low, I64(0)), getT(x.High, n)
		mx := getT(x.Max, n)
		if !check(lo, hi, mx, n) {
			return nil
		}
		return SliceV{Obj: b.Obj, Path: b.Path, Off: lo, Len: BVBin("bvsub", hi, lo), Cap: BVBin("bvsub", mx, lo)}
	case SliceV:
		lo, hi := getT(x.Low, I64(0)), getT(x.High, b.Len)
		mx := getT(x.Max, b.Cap)
		if !check(lo, hi, mx, b.Cap) {
			return nil
		}
		if b.Obj == 0 {
			return nilSlice()
		}
		return SliceV{Obj: b.Obj, Path: b.Path, Off: BVBin("bvadd", b.Off, lo), Len: BVBin("bvsub", hi, lo), Cap: BVBin("bvsub", mx, lo)}
	case StrV, SymStr:
		cells, _ := strCells(b)
		n := I64(len(cells))
		lot, hit := getT(x.Low, I64(0)), getT(x.High, n)
		if !check(lot, hit, n, n) {
			return nil
		}
		lo, ok1 := cint(lot)
		hi, ok2 := cint(hit)
		if !ok1 || !ok2 {
			// case-split the symbolic bounds over the (small) concrete length
			return e.symStrSlice(s, f, x, cells, lot, hit)
		}
		return mkStr(cells[lo:hi])
	case UnknownV:
		return b
	}
	unsupp("slice of %T", e.get(s, f, x.X))
	return nil
}

// symStrSlice forks over the feasible concrete (lo,hi) pairs of a string slice expression.
func (e *Engine) symStrSlice(s *State, f *Frame, x *ssa.Slice, cells []*Term, lot, hit *Term) Value {
	type pr struct{ lo, hi int }
	var prs []pr
	for lo := 0; lo <= len(cells); lo++ {
		for hi := lo; hi <= len(cells); hi++ {
			c := And(Eq(lot, I64(lo)), Eq(hit, I64(hi)))
			if c != False && e.feasible(s, c) {
				prs = append(prs, pr{lo, hi})
			}
		}
	}
	if len(prs) == 0 {
		s.Status = "infeasible"
		return nil
	}
	if len(prs) > 64 {
		unsupp("string slice with %d feasible symbolic bounds", len(prs))
	}
	for _, p := range prs[1:] {
		o := s.Clone()
		o.PC = append(o.PC, And(Eq(lot, I64(p.lo)), Eq(hit, I64(p.hi))))
		o.top().Locals[x] = mkStr(cells[p.lo:p.hi])
		e.Pending = append(e.Pending, o)
	}
	s.top() // re-own after clones
	p := prs[0]
	s.PC = append(s.PC, And(Eq(lot, I64(p.lo)), Eq(hit, I64(p.hi))))
	return mkStr(cells[p.lo:p.hi])
}

func (e *Engine) sliceElems(s *State, sl SliceV) []Value {
	if sl.Obj == 0 {
		return nil
	}
	n, ok := cint(sl.Len)
	if !ok {
		n, ok = e.uniqueValue(s, sl.Len)
		if !ok {
			unsupp("operation needs a concrete slice length")
		}
	}
	return e.sliceElemsN(s, sl, n)
}

// uniqueValue returns the single value t can take on this path, if there is exactly one.
func (e *Engine) uniqueValue(s *State, t *Term) (int, bool) {
	if c, ok := cint(t); ok {
		return c, true
	}
	m, ok := e.Solver.Model(s.PC, nil, nil, nil, t)
	if !ok {
		return 0, false
	}
	u, ok := litToUint(m[fmt.Sprintf("eval:%d", t.ID)])
	if !ok {
		return 0, false
	}
	c := BVUint(u, t.Sort.Width)
	if e.Solver.Check(s.PC, Not(Eq(t, c))) != "unsat" {
		return 0, false
	}
	v, _ := cint(c)
	return v, true
}

func (e *Engine) sliceElemsN(s *State, sl SliceV, n int) []Value {
	root, ok := e.heapGet(s, sl.Obj)
	if !ok {
		unsupp("slice over unknown object")
	}
	base := getPath(root, sl.Path)
	out := make([]Value, n)
	for i := 0; i < n; i++ {
		out[i] = getPath(base, []PathElem{elemAt(sl.Off, i)})
	}
	return out
}

func (e *Engine) typeAssert(s *State, f *Frame, x *ssa.TypeAssert) {
	v := e.get(s, f, x.X)
	if u, ok := v.(UnknownV); ok {
		unsupp("type assertion on unknown value (%s)", u.Why)
	}
	iv := v.(IfaceV)
	var ok bool
	var res Value
	if it, isIface := x.AssertedType.Underlying().(*types.Interface); isIface {
		if iv.T != nil {
			ok = types.Implements(iv.T, it)
		}
		res = iv
	} else {
		ok = iv.T != nil && types.Identical(iv.T, x.AssertedType)
		if ok {
			res = iv.V
		}
	}
	if x.CommaOk {
		if !ok {
			res = zeroValue(x.AssertedType)
		}
		f.Locals[x] = TupleV{res, Bool(ok)}
		return
	}
	if !ok {
		e.panicNow(s, "type assertion failed", x)
		return
	}
	f.Locals[x] = res
}

func (e *Engine) deferCall(s *State, f *Frame, x *ssa.Defer) {
	cc := x.Call
	var fv FuncV
	var args []Value
	if cc.IsInvoke() {
		recv, ok := e.get(s, f, cc.Value).(IfaceV)
		if !ok {
			unsupp("defer invoke on %T", e.get(s, f, cc.Value))
		}
		if recv.T == nil {
			e.panicNow(s, "invoke on nil interface (defer)", x)
			return
		}
		fn := e.lookupMethod(recv.T, cc.Method)
		fv = FuncV{Fn: fn}
		args = append(args, recv.V)
	} else {
		switch c := cc.Value.(type) {
		case *ssa.Builtin:
			unsupp("deferred builtin %s", c.Name())
		default:
			v, ok := e.get(s, f, cc.Value).(FuncV)
			if !ok {
				unsupp("defer of %T", e.get(s, f, cc.Value))
			}
			fv = v
		}
	}
	for _, a := range cc.Args {
		args = append(args, e.get(s, f, a))
	}
	f.Defers = append(f.Defers, deferred{Fn: fv, Args: args})
}

func (e *Engine) lookupMethod(t types.Type, m *types.Func) *ssa.Function {
	fn := e.Prog.LookupMethod(t, m.Pkg(), m.Name())
	if fn == nil {
		unsupp("no method %s on %s", m.Name(), t)
	}
	return fn
}

// ---- logical threads (harness-level scheduling; see verifSpawn/verifYield/verifJoinAll) ----

// switchTo makes parked thread i the running one; the current thread is parked unless it has
// finished (no frames).
func (e *Engine) switchTo(s *State, i int) {
	t := s.Parked[i]
	rest := append(append([]*Thread(nil), s.Parked[:i]...), s.Parked[i+1:]...)
	if len(s.Frames) > 0 {
		rest = append(rest, &Thread{ID: s.CurID, Frames: s.Frames, Waiting: s.CurWait})
	}
	s.Parked = rest
	s.Frames, s.CurID, s.CurWait = t.Frames, t.ID, false
	s.Sched = append(s.Sched, t.ID)
}

// runnable lists parked threads that may run: non-waiting ones; a waiting (joining) thread only
// when it is the last one left.
func runnable(s *State) []int {
	var out []int
	for i, t := range s.Parked {
		if !t.Waiting {
			out = append(out, i)
		}
	}
	if len(out) == 0 && len(s.Frames) == 0 {
		for i := range s.Parked {
			out = append(out, i)
		}
	}
	return out
}

// threadExit: the running thread returned; resume any runnable thread (every choice is explored).
func (e *Engine) threadExit(s *State) {
	e.scheduleFrom(s, false)
}

// scheduleFrom forks one state per scheduling choice. keepCurrent adds "stay on this thread".
func (e *Engine) scheduleFrom(s *State, keepCurrent bool) {
	choices := runnable(s)
	if len(choices) == 0 {
		if keepCurrent {
			s.Sched = append(s.Sched, s.CurID) // recorded like any other decision (see below)
			return
		}
		s.Status = "unsupported: deadlock: no runnable thread"
		return
	}
	start := 0
	if !keepCurrent {
		start = 1
	}
	for _, c := range choices[start:] {
		o := s.Clone()
		e.switchTo(o, c)
		e.Pending = append(e.Pending, o)
	}
	if !keepCurrent {
		e.switchTo(s, choices[0])
	} else {
		// staying on the current thread is a scheduling decision too: the schedule lists the running
		// thread after every scheduling point, which is what a native replay follows
		s.Sched = append(s.Sched, s.CurID)
	}
	s.top()
}
