package tdx

import (
	"crypto/sha512"
	"encoding/binary"

	"github.com/google/gce-tcb-verifier/ovmf/abi"
	"github.com/google/uuid"
)

// C05 end to end at the smallest size: tdx.MRTD of a well-formed 4 KiB TDVF image (firmware
// volume + hand-off section + temp section, attributes symbolic, every non-structural image byte
// symbolic) equals SHA-384 of the reference record stream built from the TDVF layout.

func verifPutEntry(fw []byte, end int, size uint16, guid string) {
	binary.LittleEndian.PutUint16(fw[end-18:], size)
	abi.PutUUID(fw[end-16:end], uuid.MustParse(guid))
}

func VerifC05MRTD() {
	const n = 4096
	const metaOff = 0x400
	fw := verifNondetArr("fw", n)
	end := n - abi.FwGUIDTableEndOffset
	verifPutEntry(fw, end, 18+22, abi.FwGUIDTableFooterGUID)
	binary.LittleEndian.PutUint32(fw[end-18-22:], metaOff)
	verifPutEntry(fw, end-18, 22, abi.TDXMetadataOffsetGUID)
	abi.PutUUID(fw[n-metaOff-16:n-metaOff], uuid.MustParse(abi.TDXMetadataGUID))
	m := n - metaOff
	binary.LittleEndian.PutUint32(fw[m:], abi.TDXMetadataDescriptorMagic)
	binary.LittleEndian.PutUint32(fw[m+4:], 16+3*32)
	binary.LittleEndian.PutUint32(fw[m+8:], 1)
	binary.LittleEndian.PutUint32(fw[m+12:], 3)
	hobBase, tmpBase := uint64(0x809000), uint64(0x810000)
	put := func(i int, off, size uint32, base, msize uint64, typ, attr uint32) {
		s := m + 16 + 32*i
		binary.LittleEndian.PutUint32(fw[s:], off)
		binary.LittleEndian.PutUint32(fw[s+4:], size)
		binary.LittleEndian.PutUint64(fw[s+8:], base)
		binary.LittleEndian.PutUint64(fw[s+16:], msize)
		binary.LittleEndian.PutUint32(fw[s+24:], typ)
		binary.LittleEndian.PutUint32(fw[s+28:], attr)
	}
	bfvMeasured := verifNondetBool("bfv_extend")
	bfvAttr := uint32(0)
	if bfvMeasured {
		bfvAttr = 1
	}
	fvBase := uint64(4<<30) - n
	put(0, 0, n, fvBase, n, abi.TDXMetadataSectionTypeBFV, bfvAttr)
	put(1, 0, 0, hobBase, 0x1000, abi.TDXMetadataSectionTypeTDHOB, 0)
	put(2, 0, 0, tmpBase, 0x1000, abi.TDXMetadataSectionTypeTempMem, 0)

	got, err := MRTD(LaunchOptionsDefault(""), fw)
	verifAssert(err == nil, "a well-formed image is measured")

	var stream []byte
	stream = append(stream, verifRegionStream(fvBase, fw, 1, bfvMeasured)...)
	stream = append(stream, verifRegionStream(hobBase, nil, 1, false)...)
	stream = append(stream, verifRegionStream(tmpBase, nil, 1, false)...)
	want := sha512.Sum384(stream)
	verifAssert(got == want, "MRTD = SHA-384 over the regions' record streams in declared order")
	verifReach("end")
}
