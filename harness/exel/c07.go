package eventlog

import (
	"errors"

	"golang.org/x/text/encoding"
	"golang.org/x/text/encoding/unicode"
	"golang.org/x/text/transform"

	"github.com/google/gce-tcb-verifier/eventlog"
	"github.com/google/uuid"
)

// C07 / C16 (locator resolution): Locate and variableLocatorDecode are total on every locator
// byte string, and a UEFI-variable locator is resolved only through the secure join of the
// complete file name under the configured root.

//verif:cut github.com/cyphar/filepath-securejoin.SecureJoin verifSecureJoin
//verif:cut os.ReadFile verifReadFile
//verif:cut golang.org/x/text/transform.Bytes verifTransformBytes
//verif:cut golang.org/x/text/encoding/unicode.UTF16 verifUTF16

var (
	verifJoinRoot, verifJoinArg, verifJoinResult string
	verifJoins                                   int
	verifReadPaths                               []string
	verifName                                    string
	verifErrIO                                   = errors.New("verif: io")
)

func verifSecureJoin(root, unsafePath string) (string, error) {
	verifJoins++
	verifJoinRoot, verifJoinArg = root, unsafePath
	verifJoinResult = root + "/<confined>"
	return verifJoinResult, nil
}

func verifReadFile(name string) ([]byte, error) {
	verifReadPaths = append(verifReadPaths, name)
	if verifNondetBool("read_fails") {
		return nil, verifErrIO
	}
	n := verifConcretize(int(verifNondetU8("file_len")%7), 0, 6)
	return verifNondetBytes("file", n), nil
}

// verifTransformBytes stands in for x/text's UTF-16 (little endian, BOM ignored) decoder, the only
// transformer this package uses: code units below 0x80 / 0x800 / others become 1 / 2 / 3 bytes, a
// surrogate pair 4 bytes, an unpaired surrogate or an odd trailing byte U+FFFD (compared with the
// library on 400 000 byte strings built from boundary values). The repository's own
// ucs2toUTF8 (terminator stripping, code-point validation) runs for real on its output. Native
// replays run the library.
func verifTransformBytes(t transform.Transformer, src []byte) ([]byte, int, error) {
	var out []byte
	i := 0
	for i+1 < len(src) {
		u := uint32(src[i]) | uint32(src[i+1])<<8
		i += 2
		switch {
		case u < 0x80:
			out = append(out, byte(u))
		case u < 0x800:
			out = append(out, 0xC0|byte(u>>6), 0x80|byte(u&0x3F))
		case u >= 0xD800 && u < 0xE000:
			// a surrogate: decoded together with the following unit when that is in DC00..DFFF (a valid
			// pair if this one is in D800..DBFF, otherwise one U+FFFD for both); alone it is U+FFFD
			paired := false
			if i+1 < len(src) {
				x := uint32(src[i]) | uint32(src[i+1])<<8
				if x >= 0xDC00 && x < 0xE000 {
					paired = true
					i += 2
					if u < 0xDC00 {
						cp := 0x10000 + (u-0xD800)<<10 + (x - 0xDC00)
						out = append(out, 0xF0|byte(cp>>18), 0x80|byte(cp>>12&0x3F), 0x80|byte(cp>>6&0x3F), 0x80|byte(cp&0x3F))
					} else {
						out = append(out, 0xEF, 0xBF, 0xBD)
					}
				}
			}
			if !paired {
				out = append(out, 0xEF, 0xBF, 0xBD)
			}
		default:
			out = append(out, 0xE0|byte(u>>12), 0x80|byte(u>>6&0x3F), 0x80|byte(u&0x3F))
		}
	}
	if i < len(src) {
		out = append(out, 0xEF, 0xBF, 0xBD)
	}
	return out, len(src), nil
}

// verifUTF16: the encoding object itself is opaque (its decoder is only ever handed to
// transform.Bytes, which is modelled above).
type verifEnc struct{}

func (verifEnc) NewDecoder() *encoding.Decoder { return &encoding.Decoder{} }
func (verifEnc) NewEncoder() *encoding.Encoder { return &encoding.Encoder{} }

func verifUTF16(e unicode.Endianness, b unicode.BOMPolicy) encoding.Encoding { return verifEnc{} }

// verifUCS2 encodes an ASCII name as the UEFI variable name bytes (UCS-2, NUL-terminated).
func verifUCS2(s string) []uint8 {
	var b []uint8
	for i := 0; i < len(s); i++ {
		b = append(b, s[i], 0)
	}
	return append(b, 0, 0)
}

type verifGetter struct{ urls []string }

func (g *verifGetter) Get(url string) ([]byte, error) {
	g.urls = append(g.urls, url)
	return []byte{1}, nil
}

func verifC07Locate(max int) {
	n := verifNondetInt("len")
	verifAssume(n >= 0 && n <= max, "locator length within the stated bound")
	loc := verifNondetArr("locator", n)
	typ := verifNondetU32("locator_type")
	opts := &LocateOptions{UEFIVariableReader: MakeEfiVarFSReader("/efi")}
	if verifNondetBool("has_getter") {
		opts.Getter = &verifGetter{}
	}
	out, err := Locate(typ, loc, opts)
	verifObserve("ok", err == nil)
	if err == nil && typ == eventlog.RIMLocationRaw {
		verifAssert(verifSameSlice(out, loc), "a raw locator is returned byte for byte")
		verifReach("raw")
	}
	if typ == eventlog.RIMLocationVariable && err == nil {
		verifReach("variable")
	}
	verifReach("end")
}

func VerifC07Locate24() { verifC07Locate(24) }

// Confinement routing: the file that is read is exactly what the secure join of
// "<name>-<guid>" under the configured root returned.
func VerifC16Confine() {
	names := []string{"Var", "..", ".", "../x", "a/../..", "/"}
	verifName = names[verifConcretize(int(verifNondetU8("which_name")%6), 0, 5)]
	var g uuid.UUID
	copy(g[:], verifNondetBytes("guid", 16))
	r := MakeEfiVarFSReader("/efi")
	out, err := r.ReadVariable(g, verifUCS2(verifName))
	verifObserve("ok", err == nil)
	if len(verifReadPaths) > 0 {
		verifReach("read")
		verifAssert(verifJoins == 1 && verifJoinRoot == "/efi", "the variable path is secure-joined under the configured efivarfs root")
		verifAssert(verifJoinArg == verifName+"-"+g.String(), "the complete file name <name>-<guid> is what gets confined")
		verifAssert(len(verifReadPaths) == 1 && verifReadPaths[0] == verifJoinResult, "the file opened is exactly the confined path, nothing appended or re-derived")
	}
	if err == nil {
		verifAssert(len(verifReadPaths) == 1 && out != nil || len(out) == 0, "contents come from that one file")
	}
	verifReach("end")
}
