package gcsca

import (
	"bytes"
	"context"
	"crypto"
	"crypto/rsa"
	"crypto/sha256"
	"crypto/x509"
	"time"

	"github.com/google/gce-tcb-verifier/endorse"
	epb "github.com/google/gce-tcb-verifier/proto/endorsement"
	sops "github.com/google/gce-tcb-verifier/sign/ops"
	styp "github.com/google/gce-tcb-verifier/sign/types"
	"github.com/google/gce-tcb-verifier/verify"
	"google.golang.org/protobuf/proto"
)

// C03: whatever the signer produces verifies, also after rotations -- under the RSA-PSS axiom
// (a signature made by key k over digest d with PSS/SHA-256/salt=hash verifies under k's public
// key for a message hashing to d, and nothing else does) and the chain axiom (a certificate
// verifies iff its issuer certificate is in the pool and the time lies inside both validity
// windows). Bootstrap, rotations, SignDoc and EndorsementProto all run in one symbolic execution.

//verif:cut google.golang.org/protobuf/proto.Marshal verifProtoMarshal
//verif:cut google.golang.org/protobuf/proto.Unmarshal verifProtoUnmarshal
//verif:cut (*crypto/x509.Certificate).Verify verifCertVerify
//verif:cut (*crypto/x509.Certificate).CheckSignature verifCheckSignature
//verif:cut (*crypto/x509.CertPool).AppendCertsFromPEM verifAppendCerts

type verifSignature struct {
	key    string
	digest [32]byte
	pssOK  bool
	bytes  []byte
}

var (
	verifDocs   []proto.Message // snapshots taken by proto.Marshal
	verifSigs   []*verifSignature
	verifPools  []*x509.CertPool
	verifPoolOf [][]*x509.Certificate
)

func verifProtoMarshal(m proto.Message) ([]byte, error) {
	verifDocs = append(verifDocs, verifDeepCopy(m).(proto.Message))
	return []byte{0xD0, byte(len(verifDocs)), 0x17}, nil
}

func verifProtoUnmarshal(b []byte, m proto.Message) error {
	if len(b) != 3 || b[0] != 0xD0 || int(b[1]) > len(verifDocs) || b[1] == 0 {
		return verifErrFault
	}
	src, ok := verifDocs[int(b[1])-1].(*epb.VMGoldenMeasurement)
	dst, ok2 := m.(*epb.VMGoldenMeasurement)
	if !ok || !ok2 {
		return verifErrFault
	}
	dst.Timestamp, dst.ClSpec, dst.Commit, dst.Cert, dst.CaBundle, dst.Digest, dst.SevSnp, dst.Tdx = src.Timestamp, src.ClSpec, src.Commit, src.Cert, src.CaBundle, src.Digest, src.SevSnp, src.Tdx
	return nil
}

// the endorse pipeline signs through styp.Signer: record key, digest and options
type verifDocSigner struct{ inner *verifSigner }

func (s *verifDocSigner) PublicKey(ctx context.Context, k string) ([]byte, error) {
	return s.inner.PublicKey(ctx, k)
}

func (s *verifDocSigner) Sign(ctx context.Context, keyName string, digest styp.Digest, opts crypto.SignerOpts) ([]byte, error) {
	if _, err := s.inner.Sign(ctx, keyName, digest, opts); err != nil {
		return nil, err
	}
	sig := &verifSignature{key: keyName, bytes: []byte{0x51, byte(len(verifSigs))}}
	copy(sig.digest[:], digest.SHA256)
	if p, ok := opts.(*rsa.PSSOptions); ok {
		sig.pssOK = len(digest.SHA256) == 32 && p.SaltLength == rsa.PSSSaltLengthEqualsHash && p.Hash == crypto.SHA256
	}
	verifSigs = append(verifSigs, sig)
	return sig.bytes, nil
}

func verifAppendCerts(p *x509.CertPool, pems []byte) bool {
	blk, _ := verifPemDecode(pems)
	if blk == nil {
		return false
	}
	c, err := verifParseCertificate(blk.Bytes)
	if err != nil {
		return false
	}
	verifPools = append(verifPools, p)
	verifPoolOf = append(verifPoolOf, []*x509.Certificate{c})
	return true
}

func verifInWindow(c *x509.Certificate, t time.Time) bool {
	return !t.Before(c.NotBefore) && !t.After(c.NotAfter)
}

// verifUsageOK: documented contract of VerifyOptions.KeyUsages: a certificate without extended
// key usages (or with ExtKeyUsageAny) allows every usage; otherwise one of the requested usages
// (default: server authentication) must be listed.
func verifUsageOK(c *x509.Certificate, want []x509.ExtKeyUsage) bool {
	if len(c.ExtKeyUsage) == 0 && len(c.UnknownExtKeyUsage) == 0 {
		return true
	}
	if len(want) == 0 {
		want = []x509.ExtKeyUsage{x509.ExtKeyUsageServerAuth}
	}
	for _, have := range c.ExtKeyUsage {
		if have == x509.ExtKeyUsageAny {
			return true
		}
		for _, w := range want {
			if w == x509.ExtKeyUsageAny || w == have {
				return true
			}
		}
	}
	return false
}

func verifCertVerify(c *x509.Certificate, opts x509.VerifyOptions) ([][]*x509.Certificate, error) {
	rec := verifRecOf(c)
	if rec == nil || rec.parent == nil {
		return nil, verifErrFault
	}
	if !verifUsageOK(c, opts.KeyUsages) || !verifUsageOK(rec.parent, opts.KeyUsages) {
		return nil, verifErrFault
	}
	for i, p := range verifPools {
		if p == opts.Roots {
			for _, r := range verifPoolOf[i] {
				if r == rec.parent && verifInWindow(c, opts.CurrentTime) && verifInWindow(r, opts.CurrentTime) {
					return nil, nil
				}
			}
		}
	}
	return nil, verifErrFault
}

// RSA-PSS axiom.
func verifCheckSignature(c *x509.Certificate, algo x509.SignatureAlgorithm, signed, sig []byte) error {
	if algo != x509.SHA256WithRSAPSS {
		return verifErrFault
	}
	d := sha256.Sum256(signed)
	for _, s := range verifSigs {
		k := verifTheSigner.find(s.key)
		if verifSameSlice(sig, s.bytes) && s.pssOK && k != nil && any(k.pub) == c.PublicKey && s.digest == d {
			return nil
		}
	}
	return verifErrFault
}

func (f *verifFixture) signDoc(ca styp.CertificateAuthority, ts time.Time, digest []byte) (*epb.VMLaunchEndorsement, error) {
	ctx := f.ctx(ca, false)
	kc, _ := keysFromContext(ctx)
	kc.Signer = &verifDocSigner{inner: f.signer}
	ctx = endorse.NewContext(ctx, &endorse.Context{Timestamp: ts, ClSpec: 1})
	doc := &epb.VMGoldenMeasurement{ClSpec: verifNondetU64("clspec"), Digest: digest, Commit: verifNondetBytes("commit", 1),
		SevSnp: &epb.VMSevSnp{Measurements: map[uint32][]byte{verifNondetU32("vmsas"): verifNondetBytes("meas", 4)}}}
	return endorse.SignDoc(ctx, doc)
}

func (f *verifFixture) verifyAt(ca styp.CertificateAuthority, e *epb.VMLaunchEndorsement, now time.Time) error {
	ctx := f.ctx(ca, false)
	primary, _ := ca.PrimarySigningKeyVersion(ctx)
	pool, err := sops.CertPool(ctx, ca, primary)
	if err != nil {
		return err
	}
	return verify.EndorsementProto(e, &verify.Options{RootsOfTrust: pool, Now: now})
}

func verifC03(gcs bool, rotations int) {
	f := verifNewFixture(gcs, false)
	verifAssume(f.bootstrap() == nil, "fault-free bootstrap succeeds")
	ca := f.newCA()
	ts := time.Unix(int64(verifNondetU32("doc_time")), 0)
	e0, err := f.signDoc(ca, ts, verifNondetBytes("digest", 2))
	verifAssert(err == nil && e0 != nil, "signing a document after bootstrap succeeds")
	if err != nil {
		return
	}
	// signed once, stored verbatim
	last := verifSigs[len(verifSigs)-1]
	verifAssert(last.pssOK, "the signer is asked for PSS with SHA-256 and salt length = hash length over a 32-byte digest")
	verifAssert(last.digest == sha256.Sum256(e0.SerializedUefiGolden) && verifSameSlice(e0.Signature, last.bytes), "the stored payload is the byte string that was hashed and signed, and the stored signature is the signer's output")
	stored := verifDocs[int(e0.SerializedUefiGolden[1])-1].(*epb.VMGoldenMeasurement)
	primary0, _ := ca.PrimarySigningKeyVersion(f.ctx(ca, false))
	der0, _ := ca.Certificate(f.ctx(ca, false), primary0)
	verifAssert(len(stored.Cert) != 0 && bytes.Equal(stored.Cert, der0) && stored.Timestamp != nil && stored.Timestamp.Seconds == ts.Unix(), "certificate of the primary key and the timestamp are part of the signed bytes")

	var ends []*epb.VMLaunchEndorsement
	ends = append(ends, e0)
	for r := 0; r < rotations; r++ {
		_, err := f.rotateOnce(f.newCA(), false, time.Unix(int64(verifNondetU32("t")), 0))
		verifAssume(err == nil, "fault-free rotation succeeds")
		verifReach("rotated")
		e, err := f.signDoc(f.newCA(), ts, verifNondetBytes("digest", 2))
		verifAssert(err == nil, "signing after a rotation succeeds")
		if err != nil {
			return
		}
		ends = append(ends, e)
	}
	// every endorsement -- including those issued before a rotation -- verifies under the root at
	// any time inside both validity windows
	now := time.Unix(int64(verifNondetU32("verify_time")), 0)
	final := f.newCA()
	root, _ := sops.IssuerCertFromBundle(f.ctx(final, false), final, "psk")
	for i, e := range ends {
		g := verifDocs[int(e.SerializedUefiGolden[1])-1].(*epb.VMGoldenMeasurement)
		c, _ := verifParseCertificate(g.Cert)
		got := f.verifyAt(final, e, now)
		if verifInWindow(c, now) && verifInWindow(root, now) {
			verifAssert(got == nil, "an endorsement the pipeline produced verifies at any time inside the validity of both certificates (also after rotations)")
			if i == 0 && rotations > 0 {
				verifReach("old-endorsement-verified-after-rotation")
			}
		} else {
			verifAssert(got != nil, "outside a validity window the endorsement is rejected")
		}
	}
	verifReach("end")
}

func VerifC03Mem0() { verifC03(false, 0) }
func VerifC03Mem1() { verifC03(false, 1) }
func VerifC03Gcs1() { verifC03(true, 1) }
func VerifC03Gcs2() { verifC03(true, 2) }
