package main

import (
	"go/types"
	"strings"

	"golang.org/x/tools/go/ssa"
)

var noInitPrefixes = []string{
	"runtime", "reflect", "sync", "os", "syscall", "internal/", "net", "google.golang.org/protobuf", "google.golang.org/grpc",
	"cloud.google.com/", "google.golang.org/genproto", "google.golang.org/api", "crypto/", "unicode", "math/rand", "regexp",
	"github.com/golang/protobuf", "golang.org/x/", "encoding/json", "encoding/asn1", "vendor/", "log", "testing", "flag",
	"github.com/spf13", "html", "text/", "mime", "compress/", "go/", "database/", "expvar", "hash/", "image", "io/fs", "path/filepath", "os/",
}

func skipInit(p *ssa.Package) bool {
	path := p.Pkg.Path()
	if path == "crypto" || path == "unicode/utf8" {
		return false // hash registry tables / decoding tables only
	}
	for _, pre := range noInitPrefixes {
		if path == strings.TrimSuffix(pre, "/") || strings.HasPrefix(path, pre) {
			return true
		}
	}
	// generated protobuf packages: registration through reflection
	for name := range p.Members {
		if strings.HasPrefix(name, "File_") && strings.HasSuffix(name, "_proto") {
			return true
		}
	}
	return false
}

func (e *Engine) global(s *State, g *ssa.Global) Value {
	if g.Pkg != nil {
		e.ensureInit(g.Pkg)
	}
	id, ok := e.globals[g]
	if !ok {
		id = e.newGlobal(g, false)
	}
	return PtrV{Obj: id}
}

func (e *Engine) newGlobal(g *ssa.Global, unknown bool) int {
	id := e.newObj()
	e.globals[g] = id
	if unknown {
		e.Base[id] = UnknownV{"global " + g.String() + " not initialised by the engine"}
	} else {
		e.Base[id] = zeroValue(g.Type().(*types.Pointer).Elem())
	}
	return id
}

// ensureInit runs the package initialiser once, concretely and tolerantly, writing into Base.
func (e *Engine) ensureInit(p *ssa.Package) {
	if e.inited[p] {
		return
	}
	e.inited[p] = true
	ini := p.Func("init")
	if ini == nil || len(ini.Blocks) == 0 {
		return
	}
	// globals stored by the initialiser start as unknown, so that an aborted or skipped
	// initialiser cannot make them read as zero
	stored := map[*ssa.Global]bool{}
	elemStored := map[*ssa.Global]bool{} // initialised field by field / element by element
	var scan func(fn *ssa.Function, depth int)
	seen := map[*ssa.Function]bool{}
	scan = func(fn *ssa.Function, depth int) {
		if seen[fn] || depth > 3 {
			return
		}
		seen[fn] = true
		for _, b := range fn.Blocks {
			for _, in := range b.Instrs {
				switch x := in.(type) {
				case *ssa.Store:
					if g, ok := rootGlobal(x.Addr); ok && g.Pkg == p && g.Name() != "init$guard" {
						if _, direct := x.Addr.(*ssa.Global); direct {
							stored[g] = true
						} else if !stored[g] {
							elemStored[g] = true
						}
					}
				case *ssa.Call:
					if callee, ok := x.Call.Value.(*ssa.Function); ok && callee.Pkg == p && strings.HasPrefix(callee.Name(), "init") {
						scan(callee, depth+1)
					}
				}
			}
		}
	}
	scan(ini, 0)
	skip := skipInit(p)
	for g := range stored {
		if _, ok := e.globals[g]; !ok {
			e.newGlobal(g, true)
		}
	}
	if skip {
		for g := range elemStored {
			if _, ok := e.globals[g]; !ok {
				e.newGlobal(g, true)
			}
		}
		return
	}
	wasIniting := e.initing
	e.initing = true
	savedPending := e.Pending
	e.Pending = nil
	st := &State{Heap: map[int]Value{}, Unwind: 1 << 30}
	e.pushFrame(st, ini, nil, nil, nil)
	steps := 0
	for st.Status == "" && steps < 3000000 {
		steps++
		ns := e.stepState(st, nil, 0)
		if ns == nil {
			// forked inside an initialiser: give up on this package
			st.Status = "unsupported: fork in package initialiser"
			break
		}
		st = ns
	}
	e.Pending = savedPending
	e.initing = wasIniting
	if st.Status != "done" {
		e.Stats["init-aborted:"+p.Pkg.Path()]++
		if e.Verbose {
			println("init of", p.Pkg.Path(), "aborted:", st.Status)
		}
	}
	for id, v := range st.Heap {
		e.Base[id] = v
	}
	if st.Status != "done" {
		// element-wise initialised globals may be half-built: never let them read as zero
		for g := range elemStored {
			if stored[g] {
				continue
			}
			id, ok := e.globals[g]
			if !ok {
				id = e.newGlobal(g, true)
			}
			e.Base[id] = UnknownV{"global " + g.String() + ": package initialiser aborted"}
		}
	}
}

func rootGlobal(v ssa.Value) (*ssa.Global, bool) {
	for {
		switch x := v.(type) {
		case *ssa.Global:
			return x, true
		case *ssa.FieldAddr:
			v = x.X
		case *ssa.IndexAddr:
			v = x.X
		default:
			return nil, false
		}
	}
}
