package gcetcbendorsement

import "encoding/pem"

// pem.Decode contract stub: no block (rest = input), or a block with arbitrary type and bytes and
// rest a proper suffix. The CA bundle in these harnesses is at most two abstract blocks.

var verifPemBlocks [][2]string // (type, bytes) per abstract block, consumed front to back
var verifPemBase []byte

func verifPemDecode(data []byte) (*pem.Block, []byte) {
	// data is a suffix of verifPemBase made of 4-byte abstract blocks
	off := len(verifPemBase) - len(data)
	i := off / 4
	if len(data) < 4 || i >= len(verifPemBlocks) || verifPemBlocks[i][0] == "" {
		return nil, data
	}
	return &pem.Block{Type: verifPemBlocks[i][0], Bytes: []byte(verifPemBlocks[i][1])}, data[4:]
}
