package ovmf

// C04 (ordering and validation of the declared metadata): the section list handed to the
// measurement is the firmware's list in declared order, unchanged by validation; and validation
// refuses every malformed list.

func verifC04Order(nsec int) {
	const n = 4096
	fw := verifSevImage(n, nsec)
	d := &SevData{SevEs: true, SevSnp: true}
	err := d.ExtractFromFirmware(fw)
	verifAssert(err == nil, "a fixed-shape image with consistent metadata header is parsed")
	if err != nil {
		return
	}
	secs, err := d.SnpMetadataSections()
	verifObserve("ok", err == nil)
	wellFormed := true
	seen := map[uint32]bool{}
	for i := 0; i < nsec; i++ {
		a, l, k := verifSevSection(fw, i)
		wellFormed = wellFormed && l != 0 && l%4096 == 0
		if (k == 2 || k == 3) && seen[k] {
			wellFormed = false
		}
		seen[k] = true
		for j := 0; j < i; j++ {
			a2, l2, _ := verifSevSection(fw, j)
			if uint64(a) < uint64(a2)+uint64(l2) && uint64(a2) < uint64(a)+uint64(l) {
				wellFormed = false
			}
		}
	}
	wellFormed = wellFormed && seen[1] && seen[2] && seen[3]
	if err != nil {
		verifReach("rejected")
		verifReach("end")
		return
	}
	verifReach("accepted")
	verifAssert(wellFormed, "validation accepts only non-empty page-multiple, non-overlapping (64-bit) sections with one CPUID, one secrets page and all mandatory kinds")
	verifAssert(len(secs) == nsec, "every declared section is returned")
	for i := 0; i < nsec && i < len(secs); i++ {
		a, l, k := verifSevSection(fw, i)
		verifAssert(secs[i].Address == a && secs[i].Length == l && secs[i].Kind == k, "sections are returned in declared order with their declared fields")
	}
	// validating again changes nothing (deterministic, no hidden state)
	again, err2 := d.SnpMetadataSections()
	verifAssert(err2 == nil && len(again) == len(secs), "validation is repeatable")
	verifReach("end")
}

func VerifC04Order3() { verifC04Order(3) }
func VerifC04Order4() { verifC04Order(4) }
