package main

import (
	"fmt"
	"go/token"
	"go/types"
	"sort"
	"strings"
	"time"

	"golang.org/x/tools/go/ssa"
)

type deferred struct {
	Fn   FuncV
	Args []Value
	// for invoke-mode defers the method has been resolved already
}

type Frame struct {
	Fn     *ssa.Function
	Block  *ssa.BasicBlock
	Prev   *ssa.BasicBlock
	PC     int
	Locals map[ssa.Value]Value
	Visits map[int]int // symbolic-branch visits per block (unwinding counter)
	Call   ssa.Value   // call instruction in the caller awaiting this frame's result
	Defers []deferred
	Drop   bool // result is discarded (deferred call / go statement)
	owned  bool
}

type Event struct {
	Kind string
	Args []Value
}

// Thread is a parked logical thread (frame stack) of a multi-threaded harness.
type Thread struct {
	ID      int
	Frames  []*Frame
	Waiting bool // blocked in verifJoinAll
}

type State struct {
	Parked    []*Thread
	CurID     int
	CurWait   bool
	NextTID   int
	Sched     []int // schedule: thread ids in the order they were resumed
	FreshN    map[string]int
	Frames    []*Frame
	Heap      map[int]Value // overlay over Engine.Base
	PC        []*Term
	Status    string // "", "done", "panic: ...", "assume-false", "unwind: ...", "infeasible", "unsupported: ..."
	Ret       Value
	Steps     int
	Alloc     *Term // ghost: bytes allocated so far (bv64)
	Unwind    int
	TripBound int  // bound on solver-forced iterations of one loop test (0 = unchecked)
	UnwindCut bool // exceeding the bound ends the path silently (stated as outside the claim)
	Forks     int  // symbolic branch decisions on this path
	Reach     []string
	Obs       []Obs
	Depth     int // number of merges/forks (for stats)
	Budget    *Term
}

type Obs struct {
	Name string
	Val  Value
}

func (s *State) Clone() *State {
	n := &State{Status: s.Status, Steps: s.Steps, Alloc: s.Alloc, Unwind: s.Unwind, UnwindCut: s.UnwindCut, TripBound: s.TripBound, Forks: s.Forks, Budget: s.Budget}
	n.PC = append(make([]*Term, 0, len(s.PC)+4), s.PC...)
	n.Reach = append([]string(nil), s.Reach...)
	n.Obs = append([]Obs(nil), s.Obs...)
	n.Heap = make(map[int]Value, len(s.Heap)+8)
	for k, v := range s.Heap {
		n.Heap[k] = v
	}
	n.Frames = make([]*Frame, len(s.Frames))
	for i, f := range s.Frames {
		f.owned = false
		n.Frames[i] = f
	}
	n.CurID, n.CurWait, n.NextTID = s.CurID, s.CurWait, s.NextTID
	n.FreshN = make(map[string]int, len(s.FreshN))
	for k, v := range s.FreshN {
		n.FreshN[k] = v
	}
	n.Sched = append([]int(nil), s.Sched...)
	for _, t := range s.Parked {
		nt := &Thread{ID: t.ID, Waiting: t.Waiting, Frames: make([]*Frame, len(t.Frames))}
		for i, f := range t.Frames {
			f.owned = false
			nt.Frames[i] = f
		}
		n.Parked = append(n.Parked, nt)
	}
	return n
}

// top returns the top frame, private to this state (copy-on-write).
func (s *State) top() *Frame {
	i := len(s.Frames) - 1
	f := s.Frames[i]
	if f.owned {
		return f
	}
	nf := *f
	nf.Locals = make(map[ssa.Value]Value, len(f.Locals)+8)
	for k, v := range f.Locals {
		nf.Locals[k] = v
	}
	nf.Visits = make(map[int]int, len(f.Visits))
	for k, v := range f.Visits {
		nf.Visits[k] = v
	}
	nf.Defers = append([]deferred(nil), f.Defers...)
	nf.owned = true
	s.Frames[i] = &nf
	return &nf
}

type Finding struct {
	Kind   string            `json:"kind"` // "assert", "panic", "alloc", "unwind"
	Msg    string            `json:"msg"`
	Pos    string            `json:"pos"`
	Func   string            `json:"func"`
	Stack  []string          `json:"stack"`
	Model  map[string]string `json:"model"`
	Arrays map[string][]int  `json:"arrays,omitempty"`
	Reach  []string          `json:"reach,omitempty"`
	Cross  string            `json:"cross,omitempty"`
	Sched  []int             `json:"schedule,omitempty"`
	UF     map[string]string `json:"uf,omitempty"`
}

type Engine struct {
	ufApps      []ufApp
	ufSeen      map[int]bool
	Prog        *ssa.Program
	Solver      *Solver
	Base        map[int]Value // heap shared by all states (globals after package init)
	nextObj     int
	globals     map[*ssa.Global]int
	inited      map[*ssa.Package]bool
	initing     bool
	Cuts        map[string]*ssa.Function
	Pure        map[string]bool
	HarnessP    *ssa.Package
	Findings    []Finding
	seenFind    map[string]int
	Incon       []string
	seenInc     map[string]bool
	Stats       map[string]int
	Reached     map[string]int
	AssertsN    map[string]int
	FuncsHit    map[*ssa.Function]bool
	Stubs       map[string]bool
	Assumes     map[string]bool
	Pending     []*State // states created by in-instruction forks, picked up by explore
	Finals      []*State
	MaxFind     int
	MaxSteps    int
	DefUnw      int
	MergeOn     bool
	MergeBud    int
	Paths       int
	Branches    int
	arrNames    map[string]*Term // nondet array name -> array var (for model extraction)
	arrLens     map[string]*Term
	Verbose     bool
	Witness     []map[string]interface{}
	PanicOK     bool // harness declared that panics are not violations
	joinMemo    map[*ssa.BasicBlock]*joinInfo
	MapPerm     bool
	BranchSites map[string]int
	Deadline    time.Time
	lastLog     time.Time
}

func (e *Engine) newObj() int {
	e.nextObj++
	return e.nextObj
}

func (e *Engine) alloc(s *State, v Value) int {
	id := e.newObj()
	s.Heap[id] = v
	return id
}

func (e *Engine) heapGet(s *State, id int) (Value, bool) {
	if v, ok := s.Heap[id]; ok {
		return v, true
	}
	v, ok := e.Base[id]
	return v, ok
}

func (e *Engine) pos(p token.Pos) string {
	if !p.IsValid() {
		return "?"
	}
	ps := e.Prog.Fset.Position(p)
	fn := ps.Filename
	for _, pre := range []string{"/repo/", "/root/go/pkg/mod/", "/usr/local/go/src/"} {
		if strings.HasPrefix(fn, pre) {
			fn = fn[len(pre):]
			break
		}
	}
	return fmt.Sprintf("%s:%d", fn, ps.Line)
}

func (e *Engine) instrPos(s *State, in ssa.Instruction) string {
	if in != nil && in.Pos().IsValid() {
		return e.pos(in.Pos())
	}
	// fall back to nearest positioned instruction in the block, then the function
	if in != nil && in.Block() != nil {
		for _, x := range in.Block().Instrs {
			if x.Pos().IsValid() {
				return e.pos(x.Pos())
			}
		}
		return e.pos(in.Parent().Pos())
	}
	return "?"
}

func (e *Engine) stack(s *State) []string {
	var out []string
	for i := len(s.Frames) - 1; i >= 0 && len(out) < 12; i-- {
		out = append(out, s.Frames[i].Fn.String())
	}
	return out
}

// innermostRepoFunc names the innermost frame that belongs to the repository proper (not the
// harness, not a dependency): known-finding matching is keyed on it.
func (e *Engine) innermostRepoFunc(s *State) string {
	for i := len(s.Frames) - 1; i >= 0; i-- {
		fn := s.Frames[i].Fn
		if fn.Pkg == nil {
			if fn.Parent() != nil {
				fn = fn.Parent()
			} else if o := fn.Origin(); o != nil {
				fn = o
			}
		}
		if fn.Pkg == nil {
			continue
		}
		p := fn.Pkg.Pkg.Path()
		if strings.HasPrefix(p, "github.com/google/gce-tcb-verifier") && !strings.HasPrefix(s.Frames[i].Fn.Name(), "verif") && !strings.HasPrefix(s.Frames[i].Fn.Name(), "Verif") && !strings.HasPrefix(fn.Name(), "verif") && !strings.HasPrefix(fn.Name(), "Verif") && !isHarnessRecv(fn) {
			return s.Frames[i].Fn.String()
		}
	}
	return ""
}

func isHarnessRecv(fn *ssa.Function) bool {
	if fn.Signature.Recv() == nil {
		return false
	}
	t := fn.Signature.Recv().Type()
	if p, ok := t.(*types.Pointer); ok {
		t = p.Elem()
	}
	if n, ok := t.(*types.Named); ok {
		return strings.HasPrefix(n.Obj().Name(), "verif") || strings.HasPrefix(n.Obj().Name(), "Verif")
	}
	return false
}

func (e *Engine) incon(why string) {
	if e.seenInc == nil {
		e.seenInc = map[string]bool{}
	}
	if !e.seenInc[why] {
		e.seenInc[why] = true
		e.Incon = append(e.Incon, why)
	}
	e.Stats["inconclusive"]++
}

func sortedKeys(m map[string]int) []string {
	var ks []string
	for k := range m {
		ks = append(ks, k)
	}
	sort.Strings(ks)
	return ks
}

// Fresh returns the next variable of this name on this path.
func (s *State) Fresh(name string, sort Sort) *Term {
	if s.FreshN == nil {
		s.FreshN = map[string]int{}
	}
	name = smtName(name)
	k := s.FreshN[name]
	s.FreshN[name] = k + 1
	return freshVar(name, k, sort)
}
