#!/usr/bin/env python3
"""recheck_seeds.py [seed ...]: applies every seeded change in a scratch worktree and runs the
checks named in its meta.json (detected_by) against it with the current machinery; prints one line
per seed and writes /root/scratch/recheck.json. A development aid (not a registered command)."""
import json, os, subprocess, sys, glob
V = os.path.dirname(os.path.dirname(os.path.abspath(__file__)))
seeds = sys.argv[1:] or sorted(os.path.basename(p) for p in glob.glob(os.path.join(V, "seeded", "*")))
only = {"C04": "c04-order", "C12": None}
res = {}
for s in seeds:
    sd = os.path.join(V, "seeded", s)
    meta = json.load(open(os.path.join(sd, "meta.json"))) if os.path.exists(os.path.join(sd, "meta.json")) else {}
    checks = list((meta.get("detected_by") or {s.split("-")[0]: 0}).keys())
    wt = "/tmp/recheck-" + s
    subprocess.run("git -C /repo worktree remove --force %s" % wt, shell=True, stderr=subprocess.DEVNULL, stdout=subprocess.DEVNULL)
    subprocess.run("git -C /repo worktree add -q --detach %s HEAD" % wt, shell=True, check=True)
    try:
        rc = subprocess.run("git apply %s" % os.path.join(sd, "patch.diff"), shell=True, cwd=wt).returncode
        out = {}
        for c in checks:
            env = dict(os.environ, VERIF_REPO=wt, VERIF_JOBS="8")
            if only.get(c):
                env["VERIF_ONLY"] = only[c]
            p = subprocess.run([os.path.join(V, "check"), c, "quick"], env=env, stdout=subprocess.PIPE, stderr=subprocess.STDOUT, text=True)
            v = [l.strip() for l in p.stdout.splitlines() if l.startswith("  ")]
            out[c] = {"exit": p.returncode, "how": sorted(set(("natively" if "reproduced natively" in l else "model") for l in v)), "n": len(v),
                      "inconclusive": sum(1 for l in p.stdout.splitlines() if l.startswith("INCONCLUSIVE"))}
        res[s] = {"applied": rc == 0, "checks": out}
        print(s, res[s], flush=True)
    finally:
        subprocess.run("git -C /repo worktree remove --force %s" % wt, shell=True, stderr=subprocess.DEVNULL, stdout=subprocess.DEVNULL)
json.dump(res, open("/root/scratch/recheck.json", "w"), indent=1)
