package parsepath

// Harness-side message schema and message values for C19. The parser (parse.go) and the evaluator
// (access.go) only talk to protobuf through the protoreflect interfaces; these types implement the
// methods the two files call (an unimplemented method is a nil-interface call and would show up as a
// panic finding). protoreflect.Value / MapKey, protopath.Step / Path / Values are the real library
// types, executed from their pure-Go build variant (-tags purego).
//
// Schema (one recursive message type, full name "t.M"):
//   1 s  string          4 rm repeated M
//   2 m  M               5 mm map<K, M>       K: any of the 12 legal key kinds (symbolic)
//   3 rs repeated string 6 ms map<K, string>
// Field 3/4/5/6 of a map value are the ones whose numbers do not collide with a map entry's own
// key=1 / value=2 fields.

import (
	"google.golang.org/protobuf/proto"
	"google.golang.org/protobuf/reflect/protoreflect"
)

type vfFields struct {
	protoreflect.FieldDescriptors
	fs []*vfField
}

func (f *vfFields) Len() int { return len(f.fs) }
func (f *vfFields) ByNumber(n protoreflect.FieldNumber) protoreflect.FieldDescriptor {
	for _, x := range f.fs {
		if x.num == n {
			return x
		}
	}
	return nil
}
func (f *vfFields) ByTextName(s string) protoreflect.FieldDescriptor {
	for _, x := range f.fs {
		if string(x.name) == s {
			return x
		}
	}
	return nil
}

type vfMsgDesc struct {
	protoreflect.MessageDescriptor
	name   protoreflect.FullName
	fields *vfFields
	empty  *vfMsg
}

func (d *vfMsgDesc) FullName() protoreflect.FullName          { return d.name }
func (d *vfMsgDesc) Fields() protoreflect.FieldDescriptors    { return d.fields }
func (d *vfMsgDesc) IsMapEntry() bool                         { return d.name != "t.M" }
func (d *vfMsgDesc) ProtoType(protoreflect.MessageDescriptor) {}

type vfField struct {
	protoreflect.FieldDescriptor
	name   protoreflect.Name
	num    protoreflect.FieldNumber
	kind   protoreflect.Kind
	list   bool
	mapf   bool
	msg    *vfMsgDesc // element / entry message descriptor, nil for scalars
	key    *vfField
	val    *vfField
	parent protoreflect.FullName
}

func (f *vfField) Name() protoreflect.Name          { return f.name }
func (f *vfField) TextName() string                 { return string(f.name) }
func (f *vfField) FullName() protoreflect.FullName  { return f.parent.Append(f.name) }
func (f *vfField) Number() protoreflect.FieldNumber { return f.num }
func (f *vfField) Kind() protoreflect.Kind          { return f.kind }
func (f *vfField) IsList() bool                     { return f.list }
func (f *vfField) IsMap() bool                      { return f.mapf }
func (f *vfField) IsExtension() bool                { return false }
func (f *vfField) Cardinality() protoreflect.Cardinality {
	if f.list || f.mapf {
		return protoreflect.Repeated
	}
	return protoreflect.Optional
}
func (f *vfField) Message() protoreflect.MessageDescriptor {
	if f.msg == nil {
		return nil
	}
	return f.msg
}
func (f *vfField) MapKey() protoreflect.FieldDescriptor {
	if f.key == nil {
		return nil
	}
	return f.key
}
func (f *vfField) MapValue() protoreflect.FieldDescriptor {
	if f.val == nil {
		return nil
	}
	return f.val
}
func (f *vfField) ProtoType(protoreflect.FieldDescriptor) {}

const (
	vfS  = 1
	vfM  = 2
	vfRS = 3
	vfRM = 4
	vfMM = 5
	vfMS = 6
)

// verifSchema builds the descriptor graph; keyKind is the (symbolic) kind of both maps' keys.
func verifSchema(keyKind protoreflect.Kind) *vfMsgDesc {
	md := &vfMsgDesc{name: "t.M"}
	entry := func(name protoreflect.FullName, val *vfField) *vfMsgDesc {
		e := &vfMsgDesc{name: name}
		k := &vfField{name: "key", num: 1, kind: keyKind, parent: name}
		val.name, val.num, val.parent = "value", 2, name
		e.fields = &vfFields{fs: []*vfField{k, val}}
		return e
	}
	mmEntry := entry("t.M.MmEntry", &vfField{kind: protoreflect.MessageKind, msg: md})
	msEntry := entry("t.M.MsEntry", &vfField{kind: protoreflect.StringKind})
	md.fields = &vfFields{fs: []*vfField{
		{name: "s", num: vfS, kind: protoreflect.StringKind, parent: md.name},
		{name: "m", num: vfM, kind: protoreflect.MessageKind, msg: md, parent: md.name},
		{name: "rs", num: vfRS, kind: protoreflect.StringKind, list: true, parent: md.name},
		{name: "rm", num: vfRM, kind: protoreflect.MessageKind, list: true, msg: md, parent: md.name},
		{name: "mm", num: vfMM, kind: protoreflect.MessageKind, mapf: true, msg: mmEntry,
			key: mmEntry.fields.fs[0], val: mmEntry.fields.fs[1], parent: md.name},
		{name: "ms", num: vfMS, kind: protoreflect.MessageKind, mapf: true, msg: msEntry,
			key: msEntry.fields.fs[0], val: msEntry.fields.fs[1], parent: md.name},
	}}
	return md
}

// ---- message values ----

type vfMsg struct {
	protoreflect.Message
	md   *vfMsgDesc
	s    string
	m    *vfMsg
	hasM bool // unset: Get returns an empty message, as the real implementation does
	rs   *vfList
	rm   *vfList
	mm   *vfMap
	ms   *vfMap
}

var _ proto.Message = (*vfMsg)(nil)

func (m *vfMsg) ProtoReflect() protoreflect.Message         { return m }
func (m *vfMsg) Descriptor() protoreflect.MessageDescriptor { return m.md }
func (m *vfMsg) Interface() protoreflect.ProtoMessage       { return m }
func (m *vfMsg) IsValid() bool                              { return true }

func (m *vfMsg) sub() *vfMsg {
	if m.m == nil || !m.hasM {
		return verifEmptyMsg(m.md)
	}
	return m.m
}

func (m *vfMsg) Get(fd protoreflect.FieldDescriptor) protoreflect.Value {
	switch fd.Number() {
	case vfS:
		return protoreflect.ValueOfString(m.s)
	case vfM:
		return protoreflect.ValueOfMessage(m.sub())
	case vfRS:
		return protoreflect.ValueOfList(m.rs)
	case vfRM:
		return protoreflect.ValueOfList(m.rm)
	case vfMM:
		return protoreflect.ValueOfMap(m.mm)
	case vfMS:
		return protoreflect.ValueOfMap(m.ms)
	}
	panic("vfMsg.Get: field is not in this message")
}

func verifEmptyMsg(md *vfMsgDesc) *vfMsg {
	if md.empty != nil {
		return md.empty
	}
	e := &vfMsg{md: md, rs: &vfList{}, rm: &vfList{}, mm: &vfMap{}, ms: &vfMap{}}
	for _, f := range md.fields.fs {
		if f.mapf {
			e.mm.kind, e.ms.kind = f.key.kind, f.key.kind
		}
	}
	md.empty = e
	return e
}

// vfList: up to len(elems) elements are allocated, the first n (arbitrary, 0..len(elems)) exist.
type vfList struct {
	protoreflect.List
	elems []protoreflect.Value
	n     int
}

func (l *vfList) Len() int { return l.n }
func (l *vfList) Get(i int) protoreflect.Value {
	if i < 0 || i >= l.n {
		panic("vfList.Get: index out of range") // as the real list does
	}
	return l.elems[i]
}
func (l *vfList) IsValid() bool { return true }

// vfMap stores raw keys; Get converts the probe key the way the real map's key converter does
// (Bool()/Int()/Uint()/Interface().(string)), so a probe of the wrong Go type panics here exactly
// as it does in google.golang.org/protobuf/internal/impl.
type vfMap struct {
	protoreflect.Map
	kind protoreflect.Kind
	num  []uint64 // raw key per entry (bool: 0/1; ints: value, sign-extended to 64 bits)
	str  []string
	vals []protoreflect.Value
	n    int // the first n (arbitrary, 0..len(vals)) entries exist
}

func (m *vfMap) Len() int      { return m.n }
func (m *vfMap) IsValid() bool { return true }

const (
	vfClassBool = iota
	vfClassI32
	vfClassI64
	vfClassU32
	vfClassU64
	vfClassStr
	vfClassBad
)

func vfKeyClass(k protoreflect.Kind) int {
	switch k {
	case protoreflect.BoolKind:
		return vfClassBool
	case protoreflect.Int32Kind, protoreflect.Sint32Kind, protoreflect.Sfixed32Kind:
		return vfClassI32
	case protoreflect.Int64Kind, protoreflect.Sint64Kind, protoreflect.Sfixed64Kind:
		return vfClassI64
	case protoreflect.Uint32Kind, protoreflect.Fixed32Kind:
		return vfClassU32
	case protoreflect.Uint64Kind, protoreflect.Fixed64Kind:
		return vfClassU64
	case protoreflect.StringKind:
		return vfClassStr
	}
	return vfClassBad
}

func (m *vfMap) Get(k protoreflect.MapKey) protoreflect.Value {
	switch vfKeyClass(m.kind) {
	case vfClassBool:
		want := k.Bool()
		for i := 0; i < m.n; i++ {
			if (m.num[i] != 0) == want {
				return m.vals[i]
			}
		}
	case vfClassI32:
		want := int32(k.Int())
		for i := 0; i < m.n; i++ {
			if int32(m.num[i]) == want {
				return m.vals[i]
			}
		}
	case vfClassI64:
		want := k.Int()
		for i := 0; i < m.n; i++ {
			if int64(m.num[i]) == want {
				return m.vals[i]
			}
		}
	case vfClassU32:
		want := uint32(k.Uint())
		for i := 0; i < m.n; i++ {
			if uint32(m.num[i]) == want {
				return m.vals[i]
			}
		}
	case vfClassU64:
		want := k.Uint()
		for i := 0; i < m.n; i++ {
			if m.num[i] == want {
				return m.vals[i]
			}
		}
	case vfClassStr:
		want := k.Interface().(string)
		for i := 0; i < m.n; i++ {
			if m.str[i] == want {
				return m.vals[i]
			}
		}
	}
	return protoreflect.Value{}
}

// verifArbitraryMsg builds a message of the schema with arbitrary contents down to `depth` levels
// of nested messages: strings of one arbitrary byte, lists of 0..2 elements, maps of 0..2 entries
// with arbitrary keys, singular sub-message set or unset. Counts and presence stay symbolic (no
// forking here): a path only splits on the ones it looks at.
func verifArbitraryMsg(md *vfMsgDesc, keyKind protoreflect.Kind, depth int, tag string) *vfMsg {
	count := func(name string) int {
		n := int(verifNondetU8(tag + name))
		verifAssume(n <= 2, "lists and maps have at most 2 elements")
		return n
	}
	m := &vfMsg{md: md, s: verifNondetStr(tag+"s", 1)}
	m.rs = &vfList{n: count("nrs")}
	m.ms = &vfMap{kind: keyKind, n: count("nms")}
	for i := 0; i < 2; i++ {
		m.rs.elems = append(m.rs.elems, protoreflect.ValueOfString(verifNondetStr(tag+"rs", 1)))
		m.ms.num = append(m.ms.num, verifNondetU64(tag+"msk"))
		m.ms.str = append(m.ms.str, verifNondetStr(tag+"mss", 1))
		m.ms.vals = append(m.ms.vals, protoreflect.ValueOfString(verifNondetStr(tag+"msv", 1)))
	}
	m.rm, m.mm = &vfList{}, &vfMap{kind: keyKind}
	if depth > 0 {
		m.hasM = verifNondetBool(tag + "has_m")
		m.m = verifArbitraryMsg(md, keyKind, depth-1, tag+"m.")
		m.rm.n, m.mm.n = count("nrm"), count("nmm")
		for i := 0; i < 2; i++ {
			m.rm.elems = append(m.rm.elems, protoreflect.ValueOfMessage(verifArbitraryMsg(md, keyKind, depth-1, tag+"rm.")))
			m.mm.num = append(m.mm.num, verifNondetU64(tag+"mmk"))
			m.mm.str = append(m.mm.str, verifNondetStr(tag+"mms", 1))
			m.mm.vals = append(m.mm.vals, protoreflect.ValueOfMessage(verifArbitraryMsg(md, keyKind, depth-1, tag+"mm.")))
		}
	}
	return m
}

func verifLegalKeyKind(k protoreflect.Kind) bool { return vfKeyClass(k) != vfClassBad }
