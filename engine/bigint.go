package main

import (
	"go/types"
	"math/big"
	"strings"

	"golang.org/x/tools/go/ssa"
)

// math/big.Int model: the value is a 64-bit two's-complement term kept in the struct's own
// fields (neg = sign bit, abs = one-word slice holding the magnitude term). Assumption (listed
// in evidence): values stay within 63 bits, arithmetic does not overflow.

func (e *Engine) bigGet(s *State, p PtrV) *Term {
	if p.Obj == 0 {
		unsupp("nil *big.Int")
	}
	v := e.load(s, p).(*StructV)
	neg := v.F[0].(*Term)
	abs := v.F[1].(SliceV)
	var mag *Term = I64(0)
	if abs.Obj != 0 {
		if n, ok := cint(abs.Len); ok && n >= 1 {
			mag = e.sliceElemsN(s, abs, 1)[0].(*Term)
		}
	}
	return Ite(neg, BVBin("bvsub", I64(0), mag), mag)
}

func (e *Engine) bigSet(s *State, p PtrV, val *Term) {
	neg := BVCmp("bvslt", val, I64(0))
	mag := Ite(neg, BVBin("bvsub", I64(0), val), val)
	id := e.alloc(s, &ArrayV{[]Value{mag}})
	e.store(s, p, &StructV{F: []Value{neg, SliceV{Obj: id, Off: I64(0), Len: I64(1), Cap: I64(1)}}})
}

func (e *Engine) bigNew(s *State, val *Term) PtrV {
	id := e.alloc(s, &StructV{F: []Value{False, nilSlice()}})
	p := PtrV{Obj: id}
	e.bigSet(s, p, val)
	return p
}

// decimal rendering of a symbolic value: opaque, injective by congruence; remembered so that
// SetString of the same text gives the value back.
var bigTextOf = map[*Term]*Term{} // first cell -> value

func bigText(val *Term) Value {
	if c, ok := cint(val); ok {
		return StrV{big.NewInt(int64(c)).String()}
	}
	cells := opaqueCells("bigdec", val, 20)
	bigTextOf[cells[0]] = val
	return SymStr{cells}
}

func (e *Engine) bigIntrinsic(s *State, call *ssa.Call, name string, args []Value) bool {
	if !strings.Contains(name, "math/big.") {
		return false
	}
	set := func(v Value) { e.setResult(s, call, v) }
	e.Stubs["math/big.Int: 64-bit value model (no overflow)"] = true
	switch name {
	case "math/big.NewInt":
		set(e.bigNew(s, args[0].(*Term)))
	case "(*math/big.Int).SetInt64", "(*math/big.Int).SetUint64":
		e.bigSet(s, args[0].(PtrV), args[1].(*Term))
		set(args[0])
	case "(*math/big.Int).Set":
		e.bigSet(s, args[0].(PtrV), e.bigGet(s, args[1].(PtrV)))
		set(args[0])
	case "(*math/big.Int).Int64", "(*math/big.Int).Uint64":
		set(e.bigGet(s, args[0].(PtrV)))
	case "(*math/big.Int).IsInt64", "(*math/big.Int).IsUint64":
		set(True)
	case "(*math/big.Int).Sign":
		v := e.bigGet(s, args[0].(PtrV))
		set(Ite(Eq(v, I64(0)), I64(0), Ite(BVCmp("bvslt", v, I64(0)), BVInt(-1, 64), I64(1))))
	case "(*math/big.Int).Cmp":
		a, b := e.bigGet(s, args[0].(PtrV)), e.bigGet(s, args[1].(PtrV))
		set(Ite(Eq(a, b), I64(0), Ite(BVCmp("bvslt", a, b), BVInt(-1, 64), I64(1))))
	case "(*math/big.Int).Add", "(*math/big.Int).Sub", "(*math/big.Int).Mul":
		a, b := e.bigGet(s, args[1].(PtrV)), e.bigGet(s, args[2].(PtrV))
		op := map[string]string{"Add": "bvadd", "Sub": "bvsub", "Mul": "bvmul"}[name[len("(*math/big.Int)."):]]
		e.bigSet(s, args[0].(PtrV), BVBin(op, a, b))
		set(args[0])
	case "(*math/big.Int).String":
		p := args[0].(PtrV)
		if p.Obj == 0 {
			set(StrV{"<nil>"})
			return true
		}
		set(bigText(e.bigGet(s, p)))
	case "(*math/big.Int).Text":
		set(bigText(e.bigGet(s, args[0].(PtrV))))
	case "(*math/big.Int).SetString":
		str := args[1]
		switch x := str.(type) {
		case StrV:
			base, _ := cint(args[2].(*Term))
			z, ok := new(big.Int).SetString(x.S, base)
			if !ok || !z.IsInt64() {
				set(TupleV{PtrV{}, False})
				return true
			}
			e.bigSet(s, args[0].(PtrV), I64(int(z.Int64())))
			set(TupleV{args[0], True})
		case SymStr:
			if len(x.Cells) == 20 {
				if val, ok := bigTextOf[x.Cells[0]]; ok {
					e.bigSet(s, args[0].(PtrV), val)
					set(TupleV{args[0], True})
					return true
				}
			}
			unsupp("big.Int.SetString of a symbolic string that is not a rendered big.Int")
		default:
			unsupp("big.Int.SetString of %T", str)
		}
	default:
		return false
	}
	return true
}

var _ = types.Typ
