package abi

import (
	"bytes"

	opb "github.com/google/gce-tcb-verifier/proto/ovmf"
	"github.com/google/uuid"
)

// C18 (ovmf/abi): every Put/FromBytes pair is mutually inverse, writes exactly the ABI size at
// the reference offsets (independent little-endian reference below) and leaves later bytes alone.

func verifLE(b []byte, off, n int) uint64 {
	var v uint64
	for i := 0; i < n; i++ {
		v |= uint64(b[off+i]) << (8 * uint(i))
	}
	return v
}

func verifTail(buf, orig []byte, n int) bool {
	ok := true
	for i := n; i < len(buf); i++ {
		ok = ok && buf[i] == orig[i]
	}
	return ok
}

func verifBuf(n int) ([]byte, []byte) {
	b := verifNondetBytes("buf", n)
	return b, append([]byte(nil), b...)
}

func VerifC18EFIGUID() {
	g := EFIGUID{Data1: verifNondetU32("d1"), Data2: verifNondetU16("d2"), Data3: verifNondetU16("d3")}
	copy(g.Data4[:], verifNondetBytes("d4", 8))
	buf, orig := verifBuf(18)
	verifAssert(g.Put(buf) == nil, "EFIGUID.Put accepts a 16+ byte buffer")
	verifAssert(verifLE(buf, 0, 4) == uint64(g.Data1) && verifLE(buf, 4, 2) == uint64(g.Data2) && verifLE(buf, 6, 2) == uint64(g.Data3), "EFIGUID integer fields little-endian at 0,4,6")
	for i := 0; i < 8; i++ {
		verifAssert(buf[8+i] == g.Data4[i], "EFIGUID Data4 verbatim at 8..15")
	}
	verifAssert(verifTail(buf, orig, 16), "EFIGUID.Put writes exactly 16 bytes")
	back, err := parseEFIGUID(buf[:16])
	verifAssert(err == nil && back == g, "parseEFIGUID(Put(g)) == g")
	verifAssert(g.Put(buf[:15]) != nil, "EFIGUID.Put refuses a short buffer")
	_, err = parseEFIGUID(buf[:17])
	verifAssert(err != nil, "parseEFIGUID refuses a buffer that is not 16 bytes")
	// bytes -> value -> bytes
	raw := verifNondetBytes("raw", 16)
	v, err := parseEFIGUID(raw)
	out := make([]byte, 16)
	verifAssert(err == nil && v.Put(out) == nil && bytes.Equal(out, raw), "Put(parseEFIGUID(b)) == b")
	// UUID conversions
	var u uuid.UUID
	copy(u[:], verifNondetBytes("uuid", 16))
	ub := make([]byte, 16)
	verifAssert(PutUUID(ub, u) == nil, "PutUUID accepts 16 bytes")
	u2, err := FromEFIGUID(ub)
	verifAssert(err == nil && u2 == u, "FromEFIGUID(PutUUID(u)) == u")
	verifAssert(ub[0] == u[3] && ub[1] == u[2] && ub[2] == u[1] && ub[3] == u[0] && ub[4] == u[5] && ub[5] == u[4] && ub[6] == u[7] && ub[7] == u[6], "mixed-endian layout: first three fields byte-swapped")
	for i := 8; i < 16; i++ {
		verifAssert(ub[i] == u[i], "mixed-endian layout: last 8 bytes verbatim")
	}
	verifAssert(convertEFIGUID(FromUUID(u)) == u, "convertEFIGUID(FromUUID(u)) == u")
	verifObserve("b0", ub[0])
	verifReach("end")
}

func VerifC18FwGUIDEntry() {
	var e FwGUIDEntry
	e.Size = verifNondetU16("size")
	copy(e.GUID[:], verifNondetBytes("guid", 16))
	buf, orig := verifBuf(20)
	verifAssert(e.Put(buf) == nil, "FwGUIDEntry.Put accepts an 18+ byte buffer")
	verifAssert(verifLE(buf, 0, 2) == uint64(e.Size), "FwGUIDEntry size little-endian at 0")
	verifAssert(verifTail(buf, orig, SizeofFwGUIDEntry), "FwGUIDEntry.Put writes exactly 18 bytes")
	var back FwGUIDEntry
	verifAssert(back.PopulateFromBytes(buf[:18]) == nil && back == e, "PopulateFromBytes(Put(e)) == e")
	verifAssert(e.Put(buf[:17]) != nil, "FwGUIDEntry.Put refuses a short buffer")
	raw := verifNondetBytes("raw", 18)
	var v FwGUIDEntry
	out := make([]byte, 18)
	verifAssert(v.PopulateFromBytes(raw) == nil && v.Put(out) == nil && bytes.Equal(out, raw), "Put(PopulateFromBytes(b)) == b")
	verifReach("end")
}

func VerifC18SevMetadata() {
	s := &SevMetadataSection{Address: verifNondetU32("a"), Length: verifNondetU32("l"), Kind: verifNondetU32("k")}
	buf, orig := verifBuf(14)
	verifAssert(s.Put(buf) == nil, "SevMetadataSection.Put accepts 12+ bytes")
	verifAssert(verifLE(buf, 0, 4) == uint64(s.Address) && verifLE(buf, 4, 4) == uint64(s.Length) && verifLE(buf, 8, 4) == uint64(s.Kind), "SevMetadataSection fields at 0,4,8")
	verifAssert(verifTail(buf, orig, 12), "SevMetadataSection.Put writes exactly 12 bytes")
	verifAssert(*SevMetadataSectionFromBytes(buf) == *s, "SevMetadataSectionFromBytes(Put(s)) == s")
	verifAssert(s.Put(buf[:11]) != nil, "SevMetadataSection.Put refuses a short buffer")
	verifAssert(s.Put(buf[:12]) == nil, "SevMetadataSection.Put accepts a buffer of exactly the ABI size")

	m := &SevMetadata{Signature: verifNondetU32("sig"), Length: verifNondetU32("len"), Version: verifNondetU32("ver"), Sections: verifNondetU32("n")}
	mb, mo := verifBuf(18)
	verifAssert(m.Put(mb) == nil, "SevMetadata.Put accepts 16+ bytes")
	verifAssert(verifLE(mb, 0, 4) == uint64(m.Signature) && verifLE(mb, 4, 4) == uint64(m.Length) && verifLE(mb, 8, 4) == uint64(m.Version) && verifLE(mb, 12, 4) == uint64(m.Sections), "SevMetadata fields at 0,4,8,12")
	verifAssert(verifTail(mb, mo, 16), "SevMetadata.Put writes exactly 16 bytes")
	verifAssert(*SevMetadataFromBytes(mb) == *m, "SevMetadataFromBytes(Put(m)) == m")
	verifAssert(m.Put(mb[:15]) != nil, "SevMetadata.Put refuses a short buffer")
	verifAssert(m.Put(mb[:16]) == nil, "SevMetadata.Put accepts a buffer of exactly the ABI size")

	o := &MetadataOffset{Offset: verifNondetU32("off")}
	o.GUIDEntry.Size = verifNondetU16("gsz")
	copy(o.GUIDEntry.GUID[:], verifNondetBytes("gg", 16))
	ob, oo := verifBuf(24)
	verifAssert(o.Put(ob) == nil, "MetadataOffset.Put accepts 22+ bytes")
	verifAssert(verifLE(ob, 0, 4) == uint64(o.Offset) && verifLE(ob, 4, 2) == uint64(o.GUIDEntry.Size), "MetadataOffset fields at 0,4")
	verifAssert(verifTail(ob, oo, SizeofMetadataOffset), "MetadataOffset.Put writes exactly 22 bytes")
	back, err := MetadataOffsetFromBytes(ob)
	verifAssert(err == nil && *back == *o, "MetadataOffsetFromBytes(Put(o)) == o")
	verifAssert(o.Put(ob[:21]) != nil, "MetadataOffset.Put refuses a short buffer")
	verifAssert(o.Put(ob[:22]) == nil, "MetadataOffset.Put accepts a buffer of exactly the ABI size")
	verifReach("end")
}

func VerifC18ResetBlock() {
	guid := verifNondetBytes("guid", 16)
	addr := verifNondetU32("addr")
	size := verifNondetU32("size")
	s := &opb.SevEsResetBlock{Addr: addr, Size: size, Guid: guid}
	buf, orig := verifBuf(24)
	if size >= 1<<16 {
		verifReach("size-out-of-range")
		verifAssert(PutSevEsResetBlock(buf, s) != nil, "PutSevEsResetBlock refuses a size that does not fit the 16-bit field")
		return
	}
	verifAssert(PutSevEsResetBlock(buf, s) == nil, "PutSevEsResetBlock accepts 22+ bytes and a 16-byte GUID")
	verifAssert(verifLE(buf, 0, 4) == uint64(addr) && verifLE(buf, 4, 2) == uint64(uint16(size)), "reset block addr at 0, size at 4")
	verifAssert(verifTail(buf, orig, SizeofSevEsResetBlock), "PutSevEsResetBlock writes exactly 22 bytes")
	back, err := SevEsResetBlockFromBytes(buf[:22])
	verifAssert(err == nil && back.Addr == addr && back.Size == uint32(uint16(size)) && bytes.Equal(back.Guid, guid), "SevEsResetBlockFromBytes(Put(s)) == s (size within 16 bits)")
	_, err = SevEsResetBlockFromBytes(buf[:21])
	verifAssert(err != nil, "SevEsResetBlockFromBytes refuses 21 bytes")
	_, err = SevEsResetBlockFromBytes(buf[:23])
	verifAssert(err != nil, "SevEsResetBlockFromBytes refuses 23 bytes")
	verifAssert(PutSevEsResetBlock(buf[:21], s) != nil, "PutSevEsResetBlock refuses a short buffer")
	verifAssert(PutSevEsResetBlock(buf[:22], s) == nil, "PutSevEsResetBlock accepts a buffer of exactly the ABI size")
	short := &opb.SevEsResetBlock{Addr: addr, Size: size, Guid: guid[:15]}
	verifAssert(PutSevEsResetBlock(buf, short) != nil, "PutSevEsResetBlock refuses a GUID that is not 16 bytes long")
	verifReach("end")
}

func VerifC18TDX() {
	d := &TDXMetadataDescriptor{Signature: verifNondetU32("sig"), Length: verifNondetU32("len"), Version: verifNondetU32("ver"), SectionCount: verifNondetU32("n")}
	buf, orig := verifBuf(18)
	verifAssert(d.Put(buf) == nil, "TDXMetadataDescriptor.Put accepts 16+ bytes")
	verifAssert(verifLE(buf, 0, 4) == uint64(d.Signature) && verifLE(buf, 4, 4) == uint64(d.Length) && verifLE(buf, 8, 4) == uint64(d.Version) && verifLE(buf, 12, 4) == uint64(d.SectionCount), "TDX descriptor fields at 0,4,8,12")
	verifAssert(verifTail(buf, orig, 16), "TDXMetadataDescriptor.Put writes exactly 16 bytes")
	back, err := TDXMetadataDescriptorFromBytes(buf)
	verifAssert(err == nil && *back == *d, "TDXMetadataDescriptorFromBytes(Put(d)) == d")
	_, err = TDXMetadataDescriptorFromBytes(buf[:15])
	verifAssert(err != nil && d.Put(buf[:15]) != nil, "TDX descriptor codec refuses 15 bytes")
	back16, err16 := TDXMetadataDescriptorFromBytes(buf[:16])
	verifAssert(err16 == nil && *back16 == *d && d.Put(buf[:16]) == nil, "TDX descriptor codec accepts exactly 16 bytes")

	s := &TDXMetadataSection{DataOffset: verifNondetU32("do"), DataSize: verifNondetU32("ds"), MemoryBase: EFIPhysicalAddress(verifNondetU64("mb")),
		MemorySize: verifNondetU64("ms"), SectionType: verifNondetU32("st"), Attributes: verifNondetU32("at")}
	sb, so := verifBuf(34)
	verifAssert(s.Put(sb) == nil, "TDXMetadataSection.Put accepts 32+ bytes")
	verifAssert(verifLE(sb, 0, 4) == uint64(s.DataOffset) && verifLE(sb, 4, 4) == uint64(s.DataSize) && verifLE(sb, 8, 8) == uint64(s.MemoryBase) &&
		verifLE(sb, 16, 8) == s.MemorySize && verifLE(sb, 24, 4) == uint64(s.SectionType) && verifLE(sb, 28, 4) == uint64(s.Attributes), "TDX section fields at 0,4,8,16,24,28")
	verifAssert(verifTail(sb, so, 32), "TDXMetadataSection.Put writes exactly 32 bytes")
	sback, err := TDXMetadataSectionFromBytes(sb)
	verifAssert(err == nil && *sback == *s, "TDXMetadataSectionFromBytes(Put(s)) == s")
	_, err = TDXMetadataSectionFromBytes(sb[:31])
	verifAssert(err != nil && s.Put(sb[:31]) != nil, "TDX section codec refuses 31 bytes")
	sback32, err32 := TDXMetadataSectionFromBytes(sb[:32])
	verifAssert(err32 == nil && *sback32 == *s && s.Put(sb[:32]) == nil, "TDX section codec accepts exactly 32 bytes")
	verifReach("end")
}

func verifC18TDXMetadata(n int) {
	m := &TDXMetadata{Header: &TDXMetadataDescriptor{Signature: verifNondetU32("sig"), Length: verifNondetU32("len"), Version: verifNondetU32("ver"), SectionCount: uint32(n)}}
	for i := 0; i < n; i++ {
		m.Sections = append(m.Sections, &TDXMetadataSection{DataOffset: verifNondetU32("do"), DataSize: verifNondetU32("ds"), MemoryBase: EFIPhysicalAddress(verifNondetU64("mb")),
			MemorySize: verifNondetU64("ms"), SectionType: verifNondetU32("st"), Attributes: verifNondetU32("at")})
	}
	size := 16 + 32*n
	buf, orig := verifBuf(size + 2)
	verifAssert(m.Put(buf) == nil, "TDXMetadata.Put accepts a buffer of the exact size or more")
	verifAssert(verifTail(buf, orig, size), "TDXMetadata.Put writes exactly 16+32n bytes")
	back, err := TDXMetadataFromBytes(buf[:size])
	verifAssert(err == nil && *back.Header == *m.Header && len(back.Sections) == n, "TDXMetadataFromBytes(Put(m)) has the same header and section count")
	if err == nil {
		for i := 0; i < n && i < len(back.Sections); i++ {
			verifAssert(*back.Sections[i] == *m.Sections[i], "TDXMetadataFromBytes(Put(m)) has the same sections")
		}
	}
	verifAssert(m.Put(buf[:size-1]) != nil, "TDXMetadata.Put refuses a short buffer")
	if n > 0 {
		_, err = TDXMetadataFromBytes(buf[:size-1])
		verifAssert(err != nil, "TDXMetadataFromBytes refuses a truncated section table")
	}
	verifReach("end")
}

func VerifC18TDXMetadata0() { verifC18TDXMetadata(0) }
func VerifC18TDXMetadata2() { verifC18TDXMetadata(2) }

// HOB writers: exact PI-spec layouts through the real bytes.Buffer.

func VerifC18HOB() {
	h := EFIHOBGenericHeader{HobType: verifNondetU16("type"), HobLength: verifNondetU16("len")}
	w := bytes.NewBuffer(nil)
	n, err := h.WriteTo(w)
	b := w.Bytes()
	verifAssert(err == nil && n == SizeofHOBGenericHeader && len(b) == 8, "generic HOB header is 8 bytes")
	verifAssert(verifLE(b, 0, 2) == uint64(h.HobType) && verifLE(b, 2, 2) == uint64(h.HobLength) && verifLE(b, 4, 4) == 0, "generic HOB header: type at 0, length at 2, reserved zero at 4")

	t := EFIHOBHandoffInfoTable{Header: h, Version: verifNondetU32("ver"), BootMode: EFIBootMode(verifNondetU32("boot")),
		EfiMemoryTop: EFIPhysicalAddress(verifNondetU64("mt")), EfiMemoryBottom: EFIPhysicalAddress(verifNondetU64("mb")),
		EfiFreeMemoryTop: EFIPhysicalAddress(verifNondetU64("ft")), EfiFreeMemoryBottom: EFIPhysicalAddress(verifNondetU64("fb")),
		EfiEndOfHobList: EFIPhysicalAddress(verifNondetU64("end"))}
	w2 := bytes.NewBuffer(nil)
	n, err = t.WriteTo(w2)
	b = w2.Bytes()
	verifAssert(err == nil && n == SizeOfEFIHOBHandoffInfoTable && len(b) == 56, "hand-off info table is 56 bytes")
	verifAssert(verifLE(b, 8, 4) == uint64(t.Version) && verifLE(b, 12, 4) == uint64(t.BootMode) && verifLE(b, 16, 8) == uint64(t.EfiMemoryTop) &&
		verifLE(b, 24, 8) == uint64(t.EfiMemoryBottom) && verifLE(b, 32, 8) == uint64(t.EfiFreeMemoryTop) && verifLE(b, 40, 8) == uint64(t.EfiFreeMemoryBottom) &&
		verifLE(b, 48, 8) == uint64(t.EfiEndOfHobList), "hand-off info table field offsets 8,12,16,24,32,40,48")

	d := EFIHOBResourceDescriptor{Header: h, ResourceType: EFIResourceType(verifNondetU32("rt")), ResourceAttribute: EFIResourceAttributeType(verifNondetU32("ra")),
		PhysicalStart: EFIPhysicalAddress(verifNondetU64("ps")), ResourceLength: verifNondetU64("rl")}
	d.Owner = EFIGUID{Data1: verifNondetU32("o1"), Data2: verifNondetU16("o2"), Data3: verifNondetU16("o3")}
	w3 := bytes.NewBuffer(nil)
	n, err = d.WriteTo(w3)
	b = w3.Bytes()
	verifAssert(err == nil && n == SizeofEFIHOBResourceDescriptor && len(b) == 48, "resource descriptor is 48 bytes")
	verifAssert(verifLE(b, 8, 4) == uint64(d.Owner.Data1) && verifLE(b, 12, 2) == uint64(d.Owner.Data2) && verifLE(b, 14, 2) == uint64(d.Owner.Data3) &&
		verifLE(b, 24, 4) == uint64(d.ResourceType) && verifLE(b, 28, 4) == uint64(d.ResourceAttribute) && verifLE(b, 32, 8) == uint64(d.PhysicalStart) &&
		verifLE(b, 40, 8) == d.ResourceLength, "resource descriptor field offsets 8(owner),24,28,32,40")
	verifReach("end")
}

func verifC18GUIDHOB(n int) {
	var u uuid.UUID
	copy(u[:], verifNondetBytes("guid", 16))
	data := verifNondetBytes("data", n)
	orig := append([]byte(nil), data...)
	h, err := CreateEFIHOBGUID(u, data)
	verifAssert(err == nil, "CreateEFIHOBGUID accepts small data")
	padded := (n + 7) / 8 * 8
	verifAssert(len(h.Data) == padded && int(h.Header.HobLength) == 24+padded && h.Header.HobType == EFIHOBTypeGUIDExtension, "GUID HOB data padded to 8 bytes, length = 24 + padded size")
	for i := 0; i < padded; i++ {
		if i < n {
			verifAssert(h.Data[i] == orig[i], "GUID HOB keeps the data bytes")
		} else {
			verifAssert(h.Data[i] == 0, "GUID HOB padding is zero")
		}
	}
	w := bytes.NewBuffer(nil)
	cnt, err := h.WriteTo(w)
	b := w.Bytes()
	verifAssert(err == nil && int(cnt) == 24+padded && len(b) == 24+padded, "GUID HOB serialises to header + GUID + padded data")
	verifAssert(verifLE(b, 0, 2) == EFIHOBTypeGUIDExtension && verifLE(b, 2, 2) == uint64(24+padded), "GUID HOB header type and length")
	eg := FromUUID(u)
	verifAssert(verifLE(b, 8, 4) == uint64(eg.Data1), "GUID HOB carries the GUID in EFI layout at 8")
	bad := h
	bad.Header.HobLength++
	_, err = bad.WriteTo(bytes.NewBuffer(nil))
	verifAssert(err != nil, "GUID HOB with inconsistent length is refused")
	bad = h
	bad.Header.HobType = EFIHOBTypeHandoff
	_, err = bad.WriteTo(bytes.NewBuffer(nil))
	verifAssert(err != nil, "GUID HOB with wrong type is refused")
	verifReach("end")
}

func VerifC18GUIDHOB0() { verifC18GUIDHOB(0) }
func VerifC18GUIDHOB3() { verifC18GUIDHOB(3) }
func VerifC18GUIDHOB8() { verifC18GUIDHOB(8) }
