package endorse

import (
	"context"
	"io"

	"encoding/hex"
	"time"

	"github.com/google/gce-tcb-verifier/cmd/output"
	"github.com/google/gce-tcb-verifier/keys"
	epb "github.com/google/gce-tcb-verifier/proto/endorsement"
	"github.com/google/gce-tcb-verifier/sev"

	"github.com/google/gce-tcb-verifier/tdx"
)

// C15: dry-run and measurement-only runs have no side effects. The real VirtualFirmware,
// GoldenMeasurement, SignDoc, commitEndorsement, RetrySubmit, tryChange, changeEndorsements and
// snapshotEndorsement run over recording doubles; the image measurement callees are summarised
// as uninterpreted functions of (image, configuration) (their correctness is C04-C06).

//verif:cut github.com/google/gce-tcb-verifier/sev.UnsignedSnp verifUnsignedSnp
//verif:cut github.com/google/gce-tcb-verifier/tdx.UnsignedTDX verifUnsignedTDX
//verif:cut github.com/google/gce-tcb-verifier/endorse.makeEvents verifMakeEvents
//verif:cut fmt.Println verifPrintln
//verif:cut fmt.Printf verifPrintf

var verifPrinted []string

func verifPrintln(a ...any) (int, error) {
	for _, x := range a {
		if s, ok := x.(string); ok {
			verifPrinted = append(verifPrinted, s)
		}
	}
	return 0, nil
}

func verifPrintf(format string, a ...any) (int, error) { return verifPrintln(a...) }

func verifLD(image []byte, count uint32) []byte {
	return []byte{byte(verifUF64("ld", uint64(image[0]), uint64(count)))}
}

func verifMR(image []byte) []byte { return []byte{byte(verifUF64("mrtd", uint64(image[0])))} }

func verifUnsignedSnp(uefi []byte, req *sev.SnpEndorsementRequest) (*epb.VMSevSnp, error) {
	m := map[uint32][]byte{}
	if req.LaunchVmsas != 0 {
		m[req.LaunchVmsas] = verifLD(uefi, req.LaunchVmsas)
	} else {
		m[1] = verifLD(uefi, 1)
		m[2] = verifLD(uefi, 2)
	}
	return &epb.VMSevSnp{Svn: req.Svn, Measurements: m}, nil
}

// verifTdxRows: the rows a request asks for — the default one, one per machine shape, and the
// early-accept twin of every shape row when asked (rows are identified by RAM size AND acceptance
// mode) — with summarised measurements.
func verifTdxRows(uefi []byte, req *tdx.EndorsementRequest) []*epb.VMTdx_Measurement {
	rows := []*epb.VMTdx_Measurement{{Mrtd: verifMR(uefi)}}
	for i := range req.MachineShapes {
		ram := uint32(16 * (i + 1))
		rows = append(rows, &epb.VMTdx_Measurement{RamGib: ram, Mrtd: []byte{byte(verifUF64("mrtd_shape", uint64(uefi[0]), uint64(ram), 0))}})
		if req.IncludeEarlyAccept {
			rows = append(rows, &epb.VMTdx_Measurement{RamGib: ram, EarlyAccept: true, Mrtd: []byte{byte(verifUF64("mrtd_shape", uint64(uefi[0]), uint64(ram), 1))}})
		}
	}
	return rows
}

func verifUnsignedTDX(uefi []byte, req *tdx.EndorsementRequest) (*epb.VMTdx, error) {
	return &epb.VMTdx{Svn: req.Svn, Measurements: verifTdxRows(uefi, req)}, nil
}

func verifMakeEvents(random io.Reader, endorsement *epb.VMLaunchEndorsement) ([]byte, error) {
	return []byte{0xE5}, nil
}

func verifHas(list []string, s string) bool {
	for _, x := range list {
		if x == s {
			return true
		}
	}
	return false
}

func VerifC15() {
	dry := verifNondetBool("dryrun")
	monly := verifNondetBool("measurement_only")
	snapshot := verifNondetBool("snapshot")
	withSev := verifNondetBool("sev")
	withTdx := verifNondetBool("tdx")
	verifAssume(withSev || withTdx, "at least one technology is requested")
	vmsas := verifNondetU32("launch_vmsas") // 0 = all supported counts; any other value is a legal request
	svn := uint32(verifNondetU8("svn"))
	image := verifNondetBytes("image", 1)

	vcs := &verifVCS{head: &verifStore{}}
	ca := &verifCA{}
	signer := &verifSigner{}
	ec := &Context{VCS: vcs, OutDir: "out", Image: image, CandidateName: "cand", Timestamp: time.Unix(int64(verifNondetU32("ts")), 0),
		DryRun: dry, MeasurementOnly: monly, ImageName: "fw.fd"}
	if snapshot {
		ec.SnapshotDir = "snap"
	}
	if withSev {
		ec.SevSnp = &sev.SnpEndorsementRequest{Svn: svn, LaunchVmsas: vmsas}
	}
	if withTdx {
		ec.Tdx = &tdx.EndorsementRequest{Svn: svn, IncludeEarlyAccept: verifNondetBool("tdx_early_accept")}
		if verifNondetBool("tdx_one_shape") {
			ec.Tdx.MachineShapes = []string{"c3-standard-4"}
		}
	}
	ctx := NewContext(context.Background(), ec)
	ctx = output.NewContext(ctx, &output.Options{Overwrite: verifNondetBool("overwrite")})
	ctx = keys.NewContext(ctx, &keys.Context{CA: ca, Signer: signer})

	err := VirtualFirmware(ctx)

	verifObserve("ok", err == nil)
	if monly {
		verifReach("measurement-only")
		verifAssert(err == nil, "measurement-only run completes")
		verifAssert(vcs.effects == 0 && vcs.calls == 0, "measurement-only: no workspace, write or commit")
		verifAssert(ca.calls == 0 && signer.calls == 0, "measurement-only: neither signing keys nor the certificate authority touched")
		// the measurements reported are those a real run would sign
		n := 0
		if withSev {
			if vmsas != 0 {
				verifAssert(verifHas(verifPrinted, hex.EncodeToString(verifLD(image, vmsas))), "reported SEV-SNP measurement is the one a real run signs")
				n++
			} else {
				verifAssert(verifHas(verifPrinted, hex.EncodeToString(verifLD(image, 1))) && verifHas(verifPrinted, hex.EncodeToString(verifLD(image, 2))),
					"reported SEV-SNP measurements are the ones a real run signs")
				n += 2
			}
		}
		if withTdx {
			for _, row := range verifTdxRows(image, ec.Tdx) {
				verifAssert(verifHas(verifPrinted, hex.EncodeToString(row.Mrtd)), "every TDX row a real run signs is reported")
				n++
			}
		}
		verifAssert(len(verifPrinted) == n, "nothing else reported as a measurement")
	} else if dry {
		verifReach("dry-run")
		verifAssert(err == nil, "dry run completes")
		verifAssert(vcs.effects == 0 && vcs.commits == 0 && len(vcs.workspaces) == 0, "dry run: no workspace created, no file written, nothing committed")
	} else {
		verifReach("real-run")
		verifAssert(err == nil, "fault-free real run succeeds")
		verifAssert(vcs.commits == 1 && vcs.results == 1, "real run commits once")
		// the signed document carries the summarised measurements of the supplied image
		doc, ok := verifMessages[0].(*epb.VMGoldenMeasurement)
		verifAssert(ok, "first serialised message is the golden measurement")
		if ok && withSev && vmsas != 0 {
			verifAssert(verifBytesEq(doc.SevSnp.Measurements[vmsas], verifLD(image, vmsas)), "signed SEV-SNP measurement is that of the image")
		}
	}
	verifReach("end")
}

// C14 at the top level: a real (not dry, not measurement-only) VirtualFirmware run over a
// version-control back end whose every call may fail reports success exactly when a commit
// succeeded (the error of a failed submission must not get lost on the way up).
func VerifC14TopLevel() {
	retries := verifNondetInt("retries")
	verifAssume(retries >= 0 && retries <= 1, "retry budget 0 or 1")
	vcs := &verifVCS{head: &verifStore{}, faults: true}
	vcs.maxAttempts = retries + 1
	ca := &verifCA{}
	signer := &verifSigner{}
	ec := &Context{VCS: vcs, CommitRetries: retries, OutDir: "out", Image: verifNondetBytes("image", 1), CandidateName: "cand",
		Timestamp: time.Unix(int64(verifNondetU32("ts")), 0), ImageName: "fw.fd",
		SevSnp: &sev.SnpEndorsementRequest{Svn: 1, LaunchVmsas: 1}}
	ctx := NewContext(context.Background(), ec)
	ctx = output.NewContext(ctx, &output.Options{})
	ctx = keys.NewContext(ctx, &keys.Context{CA: ca, Signer: signer})
	err := VirtualFirmware(ctx)
	verifObserve("ok", err == nil)
	verifAssert((err == nil) == (vcs.commits == 1), "the run reports success exactly when a commit succeeded")
	verifAssert(vcs.commits <= 1 && vcs.results == vcs.commits, "at most one commit, recorded once")
	if err == nil {
		verifReach("success")
	} else {
		verifReach("failure")
	}
	verifReach("end")
}
