package main

import (
	"go/types"
)

// deepCopy clones the object graph reachable from v (typed by t): fresh objects for pointers,
// slices and maps. Used for proto.Clone and for harness snapshots.
func (e *Engine) deepCopy(s *State, v Value, t types.Type, memo map[int]int) Value {
	switch x := v.(type) {
	case *Term, StrV, SymStr, FuncV, UnknownV, nil:
		return v
	case *StructV:
		st, ok := t.Underlying().(*types.Struct)
		f := make([]Value, len(x.F))
		for i := range f {
			var ft types.Type
			if ok {
				ft = st.Field(i).Type()
			}
			f[i] = e.deepCopy(s, x.F[i], ft, memo)
		}
		return &StructV{f}
	case *ArrayV:
		var et types.Type
		if at, ok := t.Underlying().(*types.Array); ok {
			et = at.Elem()
		}
		el := make([]Value, len(x.E))
		for i := range el {
			el[i] = e.deepCopy(s, x.E[i], et, memo)
		}
		return &ArrayV{el}
	case *SymArrV:
		return x
	case PtrV:
		if x.Obj == 0 {
			return x
		}
		if len(x.Path) != 0 {
			unsupp("deep copy of interior pointer")
		}
		if n, ok := memo[x.Obj]; ok {
			return PtrV{Obj: n}
		}
		var et types.Type
		if pt, ok := t.Underlying().(*types.Pointer); ok {
			et = pt.Elem()
		}
		root, _ := e.heapGet(s, x.Obj)
		id := e.newObj()
		memo[x.Obj] = id
		s.Heap[id] = e.deepCopyRoot(s, root, et, memo)
		return PtrV{Obj: id}
	case SliceV:
		if x.Obj == 0 {
			return x
		}
		if n, ok := memo[x.Obj]; ok {
			return SliceV{Obj: n, Path: x.Path, Off: x.Off, Len: x.Len, Cap: x.Cap}
		}
		var at types.Type
		if st, ok := t.Underlying().(*types.Slice); ok {
			at = types.NewArray(st.Elem(), 0)
		}
		root, _ := e.heapGet(s, x.Obj)
		id := e.newObj()
		memo[x.Obj] = id
		s.Heap[id] = e.deepCopyRoot(s, root, at, memo)
		return SliceV{Obj: id, Path: x.Path, Off: x.Off, Len: x.Len, Cap: x.Cap}
	case MapV:
		if x.Obj == 0 {
			return x
		}
		mo := e.mapObj(s, x)
		var kt, vt types.Type
		if mt, ok := t.Underlying().(*types.Map); ok {
			kt, vt = mt.Key(), mt.Elem()
		}
		n := &MapObj{}
		for i := range mo.Keys {
			n.Keys = append(n.Keys, e.deepCopy(s, mo.Keys[i], kt, memo))
			n.Vals = append(n.Vals, e.deepCopy(s, mo.Vals[i], vt, memo))
		}
		id := e.newObj()
		s.Heap[id] = n
		return MapV{Obj: id}
	case IfaceV:
		if x.T == nil {
			return x
		}
		return IfaceV{T: x.T, V: e.deepCopy(s, x.V, x.T, memo)}
	case TupleV:
		out := make(TupleV, len(x))
		for i := range x {
			out[i] = e.deepCopy(s, x[i], nil, memo)
		}
		return out
	}
	unsupp("deep copy of %T", v)
	return nil
}

func (e *Engine) deepCopyRoot(s *State, root Value, t types.Type, memo map[int]int) Value {
	if av, ok := root.(*ArrayV); ok && t != nil {
		if at, ok := t.Underlying().(*types.Array); ok {
			el := make([]Value, len(av.E))
			for i := range el {
				el[i] = e.deepCopy(s, av.E[i], at.Elem(), memo)
			}
			return &ArrayV{el}
		}
	}
	if t == nil {
		return e.deepCopy(s, root, nil, memo)
	}
	return e.deepCopy(s, root, t, memo)
}

// deepEqual: structural equality of two object graphs. strict distinguishes nil from empty.
func (e *Engine) deepEqual(s *State, a, b Value, t types.Type, strict bool, depth int) *Term {
	if depth > 64 {
		unsupp("deep equality recursion too deep")
	}
	switch x := a.(type) {
	case nil:
		return Bool(b == nil)
	case *Term:
		y, ok := b.(*Term)
		if !ok || x.Sort != y.Sort {
			return False
		}
		return Eq(x, y)
	case StrV, SymStr:
		if _, ok := strCells(b); !ok {
			return False
		}
		return e.strEq(a, b)
	case *StructV:
		y, ok := b.(*StructV)
		if !ok || len(x.F) != len(y.F) {
			return False
		}
		st, isSt := t.Underlying().(*types.Struct)
		r := True
		for i := range x.F {
			var ft types.Type = types.Typ[types.Invalid]
			if isSt {
				ft = st.Field(i).Type()
				// protobuf bookkeeping fields are not part of the value
				n := st.Field(i).Name()
				if n == "state" || n == "sizeCache" || n == "unknownFields" {
					continue
				}
			}
			r = And(r, e.deepEqual(s, x.F[i], y.F[i], ft, strict, depth+1))
		}
		return r
	case *ArrayV:
		y, ok := b.(*ArrayV)
		if !ok || len(x.E) != len(y.E) {
			return False
		}
		var et types.Type = types.Typ[types.Invalid]
		if at, ok := t.Underlying().(*types.Array); ok {
			et = at.Elem()
		}
		r := True
		for i := range x.E {
			r = And(r, e.deepEqual(s, x.E[i], y.E[i], et, strict, depth+1))
		}
		return r
	case PtrV:
		y, ok := b.(PtrV)
		if !ok {
			return False
		}
		if x.Obj == 0 || y.Obj == 0 {
			return Bool(x.Obj == 0 && y.Obj == 0)
		}
		if x.Obj == y.Obj && pathEq(x.Path, y.Path) {
			return True
		}
		var et types.Type = types.Typ[types.Invalid]
		if pt, ok := t.Underlying().(*types.Pointer); ok {
			et = pt.Elem()
		}
		return e.deepEqual(s, e.load(s, x), e.load(s, y), et, strict, depth+1)
	case SliceV:
		y, ok := b.(SliceV)
		if !ok {
			return False
		}
		if x.Obj == 0 || y.Obj == 0 {
			if strict {
				if x.Obj == 0 && y.Obj == 0 {
					return True
				}
				if x.Obj == 0 {
					return And(Bool(false), True)
				}
				return False
			}
			// nil equals empty
			lx, ly := x.Len, y.Len
			return And(Eq(lx, I64(0)), Eq(ly, I64(0)))
		}
		var et types.Type = types.Typ[types.Invalid]
		if st, ok := t.Underlying().(*types.Slice); ok {
			et = st.Elem()
		}
		nx, okx := e.uniqueValue(s, x.Len)
		ny, oky := e.uniqueValue(s, y.Len)
		if okx && oky {
			if nx != ny {
				return False
			}
			ex, ey := e.sliceElemsN(s, x, nx), e.sliceElemsN(s, y, ny)
			r := True
			for i := range ex {
				r = And(r, e.deepEqual(s, ex[i], ey[i], et, strict, depth+1))
			}
			return r
		}
		// symbolic lengths (few values)
		va, ca := e.enumValues(s, x.Len, 8)
		vb, cb := e.enumValues(s, y.Len, 8)
		if !ca || !cb || len(va) == 0 || len(vb) == 0 {
			unsupp("deep equality over slices with unbounded symbolic length")
		}
		max := va[len(va)-1]
		if m := vb[len(vb)-1]; m < max {
			max = m
		}
		r := Eq(x.Len, y.Len)
		if max > 0 {
			ex, ey := e.sliceElemsN(s, x, max), e.sliceElemsN(s, y, max)
			for i := 0; i < max; i++ {
				r = And(r, Or(BVCmp("bvsle", x.Len, I64(i)), e.deepEqual(s, ex[i], ey[i], et, strict, depth+1)))
			}
		}
		return r
	case MapV:
		y, ok := b.(MapV)
		if !ok {
			return False
		}
		var mx, my *MapObj = &MapObj{}, &MapObj{}
		if x.Obj != 0 {
			mx = e.mapObj(s, x)
		}
		if y.Obj != 0 {
			my = e.mapObj(s, y)
		}
		if strict && (x.Obj == 0) != (y.Obj == 0) {
			return False
		}
		if len(mx.Keys) != len(my.Keys) {
			return False
		}
		var vt types.Type = types.Typ[types.Invalid]
		if mt, ok := t.Underlying().(*types.Map); ok {
			vt = mt.Elem()
		}
		// every entry of x has an equal entry in y (keys pairwise distinct within a map)
		r := True
		for i := range mx.Keys {
			any := False
			for j := range my.Keys {
				any = Or(any, And(e.keyEq(mx.Keys[i], my.Keys[j]), e.deepEqual(s, mx.Vals[i], my.Vals[j], vt, strict, depth+1)))
			}
			r = And(r, any)
		}
		return r
	case IfaceV:
		y, ok := b.(IfaceV)
		if !ok {
			return False
		}
		if x.T == nil || y.T == nil {
			return Bool(x.T == nil && y.T == nil)
		}
		if !types.Identical(x.T, y.T) {
			return False
		}
		return e.deepEqual(s, x.V, y.V, x.T, strict, depth+1)
	case FuncV:
		return Bool(sameValue(a, b))
	}
	unsupp("deep equality of %T", a)
	return nil
}

// protoMerge models proto.Merge(dst, src) over the Go values of generated messages, with proto3
// semantics: a scalar field of src replaces dst's only when it is non-zero (no field presence), a
// non-empty bytes/string field replaces, a set sub-message is merged recursively (allocated in dst
// when absent), repeated fields are appended, map entries are set. Optional (pointer-to-scalar)
// fields and oneofs are not modelled (unsupported).
func (e *Engine) protoMerge(s *State, dst, src PtrV, t types.Type, depth int) {
	if depth > 16 {
		unsupp("proto.Merge recursion too deep")
	}
	pt, ok := t.Underlying().(*types.Pointer)
	if !ok {
		unsupp("proto.Merge of %s", t)
	}
	st, ok := pt.Elem().Underlying().(*types.Struct)
	if !ok {
		unsupp("proto.Merge of %s", t)
	}
	sv, ok := e.load(s, src).(*StructV)
	if !ok {
		unsupp("proto.Merge source is %T", e.load(s, src))
	}
	for i := 0; i < st.NumFields(); i++ {
		f := st.Field(i)
		if n := f.Name(); n == "state" || n == "sizeCache" || n == "unknownFields" || !f.Exported() {
			continue
		}
		dp := PtrV{Obj: dst.Obj, Path: extendPath(dst.Path, PathElem{Idx: i})}
		sval := sv.F[i]
		switch x := sval.(type) {
		case *Term:
			old := e.load(s, dp).(*Term)
			var zero *Term
			if x.Sort.Kind == 0 {
				zero = False
			} else {
				zero = BVInt(0, x.Sort.Width)
			}
			e.store(s, dp, Ite(Eq(x, zero), old, x))
		case StrV:
			if x.S != "" {
				e.store(s, dp, x)
			}
		case SymStr:
			if len(x.Cells) > 0 {
				e.store(s, dp, x)
			}
		case PtrV:
			if x.Obj == 0 {
				continue
			}
			fp, isPtr := f.Type().Underlying().(*types.Pointer)
			if !isPtr {
				unsupp("proto.Merge: pointer value in non-pointer field %s", f.Name())
			}
			if _, isMsg := fp.Elem().Underlying().(*types.Struct); !isMsg {
				unsupp("proto.Merge: optional scalar field %s", f.Name())
			}
			dcur := e.load(s, dp).(PtrV)
			if dcur.Obj == 0 {
				dcur = PtrV{Obj: e.alloc(s, zeroValue(fp.Elem()))}
				e.store(s, dp, dcur)
			}
			e.protoMerge(s, dcur, x, f.Type(), depth+1)
		case SliceV:
			if x.Obj == 0 {
				continue
			}
			n, okn := e.uniqueValue(s, x.Len)
			if !okn {
				unsupp("proto.Merge: repeated/bytes field %s of symbolic length", f.Name())
			}
			if n == 0 {
				continue
			}
			if sl, isSl := f.Type().Underlying().(*types.Slice); isSl && isByte(sl.Elem()) {
				e.store(s, dp, e.deepCopy(s, x, f.Type(), map[int]int{}))
				continue
			}
			unsupp("proto.Merge: repeated field %s", f.Name())
		case nil:
		default:
			unsupp("proto.Merge: field %s holds %T", f.Name(), sval)
		}
	}
}
