package endorse

import (
	"bytes"
	"encoding/hex"
	"io"

	"github.com/google/gce-tcb-verifier/eventlog"
	epb "github.com/google/gce-tcb-verifier/proto/endorsement"
	evpb "github.com/google/gce-tcb-verifier/proto/events"
	"github.com/google/gce-tcb-verifier/verify"
	"google.golang.org/protobuf/proto"
)

// C16 (b): the SP800-155 events emitted for a firmware parse back to exactly what was emitted:
// one UEFI-variable locator (FirmwareRIM under the Google GUID) and one URI locator that is the
// bucket URL derived from the image digest, both under the same manifest GUID (16 symbolic
// random bytes). The real makeEvents/varEvent/uriEvent, SP800155Event3.MarshalToBytes and
// UnmarshalFromBytes run; protobuf (un)marshalling of the wrapper messages is abstract.

//verif:cut google.golang.org/protobuf/proto.Unmarshal verifC16Unmarshal

var verifC16Digest []byte

func verifC16Unmarshal(b []byte, m proto.Message) error {
	if g, ok := m.(*epb.VMGoldenMeasurement); ok {
		g.Digest = verifC16Digest
	}
	return nil
}

type verifRandom struct{ data []byte }

func (r *verifRandom) Read(p []byte) (int, error) {
	n := copy(p, r.data)
	r.data = r.data[n:]
	if n == 0 {
		return 0, io.EOF
	}
	return n, nil
}

func VerifC16Events() {
	verifMessages = nil
	verifC16Digest = verifNondetBytes("digest", 48)
	rnd := verifNondetBytes("random", 16)
	blob, err := makeEvents(&verifRandom{data: rnd}, &epb.VMLaunchEndorsement{SerializedUefiGolden: []byte{1}})
	verifAssert(err == nil && len(blob) == 2, "events are produced for a well-formed endorsement")
	if err != nil {
		return
	}
	evts, ok := verifMessages[len(verifMessages)-1].(*evpb.Sp800155Events)
	verifAssert(ok && len(evts.Events) == 2, "exactly two events are emitted")
	if !ok || len(evts.Events) != 2 {
		return
	}
	var parsed [2]eventlog.SP800155Event3
	for i := 0; i < 2; i++ {
		raw := evts.Events[i]
		verifAssert(len(raw) > 16 && bytes.Equal(raw[:16], eventlog.TcgSP800155Event3Signature[:]), "each event starts with the SP800-155 Event3 signature")
		verifAssert(parsed[i].UnmarshalFromBytes(raw[16:]) == nil, "each emitted event parses back")
		back, err := parsed[i].MarshalToBytes()
		verifAssert(err == nil && bytes.Equal(back, raw), "a parsed event re-encodes to the emitted bytes")
		verifAssert(parsed[i].PlatformManufacturerID == 11129 && parsed[i].FirmwareManufacturerID == 11129 && parsed[i].FirmwareManufacturerStr.Data == "Google, Inc.", "events carry Google's manufacturer identity")
	}
	verifAssert(parsed[0].ReferenceManifestGUID == parsed[1].ReferenceManifestGUID, "both events are under the same manifest GUID")
	// RFC 4122 version-4 layout of the random bytes
	g := parsed[0].ReferenceManifestGUID.UUID
	for i := 0; i < 16; i++ {
		want := rnd[i]
		if i == 6 {
			want = rnd[i]&0x0f | 0x40
		}
		if i == 8 {
			want = rnd[i]&0x3f | 0x80
		}
		verifAssert(g[i] == want, "the manifest GUID is the random version-4 UUID drawn for this run")
	}
	verifAssert(parsed[0].RIMLocatorType == eventlog.RIMLocationVariable && bytes.Equal(parsed[0].RIMLocator.Data, rimVar), "first event: UEFI-variable locator FirmwareRIM under the Google GUID")
	wantURL := verify.GCETcbURL("ovmf_x64_csm/" + hex.EncodeToString(verifC16Digest) + ".fd.signed")
	verifAssert(parsed[1].RIMLocatorType == eventlog.RIMLocationURI && string(parsed[1].RIMLocator.Data) == wantURL, "second event: URI locator = bucket URL derived from the SHA-384 of the image")
	verifObserve("n", len(evts.Events))
	verifReach("end")
}
