package main

import (
	"fmt"

	"golang.org/x/tools/go/ssa"
)

type joinInfo struct {
	ok   bool
	join *ssa.BasicBlock // nil = function exit
}

type funcPD struct {
	ipdom map[*ssa.BasicBlock]*ssa.BasicBlock // nil value = virtual exit
	has   map[*ssa.BasicBlock]bool
}

var pdCache = map[*ssa.Function]*funcPD{}

// postDominators computes immediate post-dominators with a virtual exit node (iterative
// Cooper-Harvey-Kennedy on the reversed CFG).
func postDominators(fn *ssa.Function) *funcPD {
	if pd, ok := pdCache[fn]; ok {
		return pd
	}
	n := len(fn.Blocks)
	exit := n // virtual
	// reverse post-order on reversed graph starting at exit
	preds := func(i int) []int { // predecessors in reversed graph = successors in CFG
		if i == exit {
			return nil
		}
		b := fn.Blocks[i]
		if len(b.Succs) == 0 {
			return []int{exit}
		}
		out := make([]int, len(b.Succs))
		for k, s := range b.Succs {
			out[k] = s.Index
		}
		return out
	}
	succsRev := make([][]int, n+1) // successors in reversed graph = predecessors in CFG (+ exit -> terminal blocks)
	for _, b := range fn.Blocks {
		if len(b.Succs) == 0 {
			succsRev[exit] = append(succsRev[exit], b.Index)
		}
		for _, p := range b.Preds {
			succsRev[b.Index] = append(succsRev[b.Index], p.Index)
		}
	}
	order := []int{}
	seen := make([]bool, n+1)
	var dfs func(i int)
	dfs = func(i int) {
		seen[i] = true
		for _, j := range succsRev[i] {
			if !seen[j] {
				dfs(j)
			}
		}
		order = append(order, i)
	}
	dfs(exit)
	rpoNum := make([]int, n+1)
	for i := range rpoNum {
		rpoNum[i] = -1
	}
	for k := range order {
		rpoNum[order[len(order)-1-k]] = k
	}
	idom := make([]int, n+1)
	for i := range idom {
		idom[i] = -1
	}
	idom[exit] = exit
	intersect := func(a, b int) int {
		for a != b {
			for rpoNum[a] > rpoNum[b] {
				a = idom[a]
			}
			for rpoNum[b] > rpoNum[a] {
				b = idom[b]
			}
		}
		return a
	}
	changed := true
	for changed {
		changed = false
		for k := len(order) - 1; k >= 0; k-- {
			b := order[k]
			if b == exit {
				continue
			}
			newIdom := -1
			for _, p := range preds(b) {
				if rpoNum[p] < 0 || idom[p] < 0 {
					continue
				}
				if newIdom < 0 {
					newIdom = p
				} else {
					newIdom = intersect(p, newIdom)
				}
			}
			if newIdom >= 0 && idom[b] != newIdom {
				idom[b] = newIdom
				changed = true
			}
		}
	}
	pd := &funcPD{ipdom: map[*ssa.BasicBlock]*ssa.BasicBlock{}, has: map[*ssa.BasicBlock]bool{}}
	for _, b := range fn.Blocks {
		if idom[b.Index] < 0 {
			continue // cannot reach exit (infinite loop)
		}
		pd.has[b] = true
		if idom[b.Index] == exit {
			pd.ipdom[b] = nil
		} else {
			pd.ipdom[b] = fn.Blocks[idom[b.Index]]
		}
	}
	pdCache[fn] = pd
	return pd
}

// joinOf decides whether the If ending block b may be merged at its immediate post-dominator:
// only when b cannot be reached again before the join (no loop through b).
func (e *Engine) joinOf(b *ssa.BasicBlock) *joinInfo {
	if ji, ok := e.joinMemo[b]; ok {
		return ji
	}
	ji := &joinInfo{}
	e.joinMemo[b] = ji
	pd := postDominators(b.Parent())
	if !pd.has[b] {
		return ji
	}
	j := pd.ipdom[b]
	seen := map[*ssa.BasicBlock]bool{}
	var stack []*ssa.BasicBlock
	stack = append(stack, b.Succs...)
	for len(stack) > 0 {
		x := stack[len(stack)-1]
		stack = stack[:len(stack)-1]
		if x == j || seen[x] {
			continue
		}
		if x == b {
			return ji // loop
		}
		seen[x] = true
		stack = append(stack, x.Succs...)
	}
	ji.ok = true
	ji.join = j
	return ji
}

// mergeStates merges states that stopped at the same join. prefix is the length of the common
// path condition. Returns nil if the states are not mergeable.
func (e *Engine) mergeStates(prefix int, sts []*State) *State {
	m := sts[len(sts)-1]
	conds := make([]*Term, len(sts))
	for i, s := range sts {
		if len(s.PC) < prefix {
			return nil
		}
		conds[i] = AndAll(s.PC[prefix:])
	}
	for i := len(sts) - 2; i >= 0; i-- {
		n := e.merge2(conds[i], sts[i], m)
		if n == nil {
			return nil
		}
		m = n
	}
	any := False
	for _, c := range conds {
		any = Or(any, c)
	}
	m.PC = append(append([]*Term(nil), sts[0].PC[:prefix]...), any)
	if any == True {
		m.PC = m.PC[:prefix]
	}
	return m
}

func (e *Engine) mfail(why string) *State {
	e.Stats["mergefail:"+why]++
	return nil
}

func (e *Engine) merge2(c *Term, a, b *State) *State {
	if len(a.Frames) != len(b.Frames) || a.Status != b.Status || len(a.Obs) != len(b.Obs) {
		return e.mfail("shape")
	}
	if len(a.Parked) > 0 || len(b.Parked) > 0 {
		return e.mfail("threads")
	}
	if len(a.Sched) != len(b.Sched) {
		return e.mfail("schedule")
	}
	for i := range a.Sched {
		if a.Sched[i] != b.Sched[i] {
			return e.mfail("schedule")
		}
	}
	n := &State{Sched: append([]int(nil), a.Sched...), CurID: a.CurID, NextTID: a.NextTID, Status: a.Status, Steps: maxInt(a.Steps, b.Steps), Unwind: a.Unwind, UnwindCut: a.UnwindCut, TripBound: a.TripBound, Forks: maxInt(a.Forks, b.Forks), Budget: a.Budget}
	n.FreshN = map[string]int{}
	for k, v := range a.FreshN {
		n.FreshN[k] = v
	}
	for k, v := range b.FreshN {
		if v > n.FreshN[k] {
			n.FreshN[k] = v
		}
	}
	// frames
	n.Frames = make([]*Frame, len(a.Frames))
	for i := range a.Frames {
		fa, fb := a.Frames[i], b.Frames[i]
		if fa == fb {
			fa.owned = false
			n.Frames[i] = fa
			continue
		}
		if fa.Fn != fb.Fn || fa.Block != fb.Block || fa.PC != fb.PC || fa.Call != fb.Call || len(fa.Defers) != len(fb.Defers) || fa.Drop != fb.Drop {
			return e.mfail("frame")
		}
		for k := range fa.Defers {
			if !sameValue(fa.Defers[k].Fn, fb.Defers[k].Fn) || !sameValue(TupleV(fa.Defers[k].Args), TupleV(fb.Defers[k].Args)) {
				return nil
			}
		}
		nf := &Frame{Fn: fa.Fn, Block: fa.Block, Prev: fa.Prev, PC: fa.PC, Call: fa.Call, Drop: fa.Drop, owned: true,
			Locals: make(map[ssa.Value]Value, len(fa.Locals)), Visits: map[int]int{}, Defers: append([]deferred(nil), fa.Defers...)}
		for k, va := range fa.Locals {
			vb, ok := fb.Locals[k]
			if !ok {
				// defined on one side only: dead after the join (SSA dominance); keep a's
				nf.Locals[k] = va
				continue
			}
			mv, ok := mergeValue(c, va, vb)
			if !ok {
				// a value whose defining block does not dominate the frame's current block is
				// dead here (SSA dominance): stale from an earlier loop iteration or branch
				if in, isIn := k.(ssa.Instruction); isIn && in.Block() != nil && !in.Block().Dominates(fa.Block) {
					continue
				}
				return e.mfail(fmt.Sprintf("local %T/%T %s", va, vb, k.Name()))
			}
			nf.Locals[k] = mv
		}
		for k, vb := range fb.Locals {
			if _, ok := fa.Locals[k]; !ok {
				nf.Locals[k] = vb
			}
		}
		for k, v := range fa.Visits {
			nf.Visits[k] = v
		}
		for k, v := range fb.Visits {
			if v > nf.Visits[k] {
				nf.Visits[k] = v
			}
		}
		n.Frames[i] = nf
	}
	// heap
	n.Heap = make(map[int]Value, len(a.Heap)+len(b.Heap))
	for id, va := range a.Heap {
		vb, ok := b.Heap[id]
		if !ok {
			if base, inBase := e.Base[id]; inBase {
				vb = base
			} else {
				// allocated (or first written) on a's side only
				if pre, had := e.preexisting(id, a, b); had {
					vb = pre
				} else {
					n.Heap[id] = va
					continue
				}
			}
		}
		mv, ok := mergeValue(c, va, vb)
		if !ok {
			return e.mfail(fmt.Sprintf("heap %T/%T", va, vb))
		}
		n.Heap[id] = mv
	}
	for id, vb := range b.Heap {
		if _, ok := a.Heap[id]; ok {
			continue
		}
		if base, inBase := e.Base[id]; inBase {
			mv, ok := mergeValue(c, base, vb)
			if !ok {
				return nil
			}
			n.Heap[id] = mv
			continue
		}
		n.Heap[id] = vb
	}
	// ghost state
	switch {
	case a.Alloc == nil && b.Alloc == nil:
	case a.Alloc == nil:
		n.Alloc = Ite(c, I64(0), b.Alloc)
	case b.Alloc == nil:
		n.Alloc = Ite(c, a.Alloc, I64(0))
	default:
		n.Alloc = Ite(c, a.Alloc, b.Alloc)
	}
	for i := range a.Obs {
		if a.Obs[i].Name != b.Obs[i].Name {
			return nil
		}
		mv, ok := mergeValue(c, a.Obs[i].Val, b.Obs[i].Val)
		if !ok {
			return nil
		}
		n.Obs = append(n.Obs, Obs{a.Obs[i].Name, mv})
	}
	seen := map[string]bool{}
	for _, r := range append(append([]string(nil), a.Reach...), b.Reach...) {
		if !seen[r] {
			seen[r] = true
			n.Reach = append(n.Reach, r)
		}
	}
	return n
}

// preexisting: an object id present in one overlay but not the other and not in Base cannot have
// existed before the fork (heap overlays are copied on clone), so it is private to one side.
func (e *Engine) preexisting(id int, a, b *State) (Value, bool) { return nil, false }

func maxInt(a, b int) int {
	if a > b {
		return a
	}
	return b
}
