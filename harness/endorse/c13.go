package endorse

import (
	"context"
	"crypto/sha512"
	"time"

	"github.com/google/gce-tcb-verifier/cmd/output"
	epb "github.com/google/gce-tcb-verifier/proto/endorsement"
	rpb "github.com/google/gce-tcb-verifier/proto/releases"
	tpb "google.golang.org/protobuf/types/known/timestamppb"
)

// C13 (a): the entry-merge rules. An arbitrary well-formed entry list (unique paths, unique
// digests; 1-byte paths and digests so every aliasing pattern is satisfiable) plus a new entry.

func verifBytesEq(a, b []byte) bool {
	if len(a) != len(b) {
		return false
	}
	r := true
	for i := range a {
		r = r && a[i] == b[i]
	}
	return r
}

type verifEntrySnap struct {
	path   string
	digest []byte
	sec    int64
}

func verifC13Entry(n int) {
	entries := make([]*rpb.VMEndorsementMap_Entry, n)
	old := make([]verifEntrySnap, n)
	for i := range entries {
		p := verifNondetStr("path", 1)
		d := verifNondetBytes("dig", 1)
		t := int64(verifNondetU32("time"))
		entries[i] = &rpb.VMEndorsementMap_Entry{Path: p, Digest: d, CreateTime: &tpb.Timestamp{Seconds: t}}
		old[i] = verifEntrySnap{p, append([]byte(nil), d...), t}
	}
	for i := 0; i < n; i++ {
		for j := i + 1; j < n; j++ {
			verifAssume(old[i].path != old[j].path, "initial manifest lists each path once")
			verifAssume(!verifBytesEq(old[i].digest, old[j].digest), "initial manifest lists each digest once")
		}
	}
	np := verifNondetStr("newpath", 1)
	nd := verifNondetBytes("newdig", 1)
	nt := int64(verifNondetU32("newtime"))
	ne := &rpb.VMEndorsementMap_Entry{Path: np, Digest: nd, CreateTime: &tpb.Timestamp{Seconds: nt}}
	out := addEndorsementEntry(context.Background(), entries, ne)

	verifObserve("nout", len(out))
	verifAssert(len(out) <= n+1, "at most one entry added")
	found := 0
	for i := 0; i < len(out); i++ {
		for j := i + 1; j < len(out); j++ {
			verifAssert(out[i].Path != out[j].Path, "result lists each path at most once")
			verifAssert(!verifBytesEq(out[i].Digest, out[j].Digest), "result lists each digest at most once")
		}
		if out[i].Path == np {
			found++
			verifAssert(verifBytesEq(out[i].Digest, nd), "the new path maps to the new digest")
			verifAssert(out[i].CreateTime != nil && out[i].CreateTime.Seconds == nt, "the new entry carries the new creation time")
		}
	}
	verifAssert(found == 1, "the new path is listed exactly once")
	// unrelated entries are preserved unchanged
	for k := 0; k < n; k++ {
		if old[k].path != np && !verifBytesEq(old[k].digest, nd) {
			kept := false
			for i := 0; i < len(out); i++ {
				if out[i].Path == old[k].path && verifBytesEq(out[i].Digest, old[k].digest) && out[i].CreateTime != nil && out[i].CreateTime.Seconds == old[k].sec {
					kept = true
				}
			}
			verifAssert(kept, "an entry with unrelated path and digest is preserved unchanged")
		}
	}
	// nothing else appears
	for i := 0; i < len(out); i++ {
		if out[i].Path != np {
			fromOld := false
			for k := 0; k < n; k++ {
				if out[i].Path == old[k].path && verifBytesEq(out[i].Digest, old[k].digest) {
					fromOld = true
				}
			}
			verifAssert(fromOld, "every other result entry is an original entry")
		}
	}
	verifReach("end")
}

func VerifC13Entry0() { verifC13Entry(0) }
func VerifC13Entry1() { verifC13Entry(1) }
func VerifC13Entry2() { verifC13Entry(2) }
func VerifC13Entry3() { verifC13Entry(3) }

// C13 (b): one endorse step (changeEndorsements) from an arbitrary consistent store: every
// manifest entry names an existing endorsement file whose signed digest equals the entry's.
// Pre-existing file i has contents {0xD0,i}; its signed digest is the symbolic value dig[i].

var verifPoolNames = []string{"a", "b", "c"}

func verifDigestOfFile(contents []byte, dig [][]byte, newDigest []byte) ([]byte, bool) {
	if len(contents) == 2 && contents[0] == 0xD0 {
		return dig[int(contents[1])], true
	}
	if len(contents) == 2 && contents[0] == 0xEE {
		return newDigest, true
	}
	return nil, false
}

func verifC13Step(n int) {
	overwrite := verifNondetBool("overwrite")
	ci := int(verifNondetU8("cand"))
	verifAssume(ci <= 1, "candidate name drawn from the pool {a, b}")
	cand := verifPoolNames[verifConcretize(ci, 0, 1)]
	image := verifNondetBytes("image", 1)
	newDigestA := sha512.Sum384(image)
	newDigest := newDigestA[:]

	head := &verifStore{}
	dig := make([][]byte, n)
	var pre []verifEntry
	for i := 0; i < n; i++ {
		// distinct pool paths: entry i uses pool name i (a, b, c) in an arbitrary but fixed order
		dig[i] = verifNondetBytes("dig", 48)
		pre = append(pre, verifEntry{path: verifPoolNames[i] + ".binarypb", digest: dig[i], hasTime: true, sec: int64(verifNondetU32("time"))})
		head.put("out/"+verifPoolNames[i]+".binarypb", []byte{0xD0, byte(i)})
	}
	for i := 0; i < n; i++ {
		for j := i + 1; j < n; j++ {
			verifAssume(!verifBytesEq(dig[i], dig[j]), "initial manifest lists each digest once")
		}
	}
	// a file the manifest no longer lists (its digest moved to another candidate) may still exist
	if verifNondetBool("orphan_file") {
		if head.find("out/"+verifPoolNames[2-ci]+".binarypb") < 0 {
			head.put("out/"+verifPoolNames[2-ci]+".binarypb", []byte{0xD0, 0})
		}
		if head.find("out/"+cand+".binarypb") < 0 {
			head.put("out/"+cand+".binarypb", []byte{0xD0, 0})
		}
	}
	if n > 0 || verifNondetBool("has_manifest") {
		head.put(releaseManifestPath, verifSerializeManifest(pre))
	}
	// every workspace operation of the step may fail: a failed write that the code ignores would
	// leave the manifest naming a file that was never written
	vcs := &verifVCS{head: head}
	c, _ := vcs.GetChangeOps(context.Background())
	vcs.faults = true
	cops := c.(*verifCops)
	ec := &Context{VCS: vcs, OutDir: "out", Image: image, CandidateName: cand, Timestamp: time.Unix(int64(verifNondetU32("ts")), 0)}
	ctx := NewContext(context.Background(), ec)
	ctx = output.NewContext(ctx, &output.Options{Overwrite: overwrite})
	end := &epb.VMLaunchEndorsement{SerializedUefiGolden: []byte{1}, Signature: []byte{2}}

	base, err := changeEndorsements(ctx, cops, end)
	verifObserve("ok", err == nil)
	newPath := "out/" + cand + ".binarypb"
	existed := head.find(newPath) >= 0
	if !overwrite && existed {
		verifAssert(err != nil, "without overwrite an existing endorsement file is not replaced (run fails)")
		i := cops.ws.find(newPath)
		verifAssert(i >= 0 && cops.ws.files[i].contents[0] == 0xD0, "existing endorsement file contents untouched without overwrite")
		verifReach("refused")
	}
	if err == nil {
		verifReach("ok")
		verifAssert(base == cand+".binarypb", "reported endorsement path is the file written")
		mi := cops.ws.find(releaseManifestPath)
		verifAssert(mi >= 0, "manifest written")
		if mi >= 0 {
			ents := verifManifestOf(cops.ws.files[mi].contents)
			mapped := false
			for i := 0; i < len(ents); i++ {
				for j := i + 1; j < len(ents); j++ {
					verifAssert(ents[i].path != ents[j].path, "manifest lists each path at most once")
					verifAssert(!verifBytesEq(ents[i].digest, ents[j].digest), "manifest lists each digest at most once")
				}
				fi := cops.ws.find("out/" + ents[i].path)
				verifAssert(fi >= 0, "every manifest entry names an existing endorsement file")
				if fi >= 0 {
					d, ok := verifDigestOfFile(cops.ws.files[fi].contents, dig, newDigest)
					verifAssert(ok && verifBytesEq(d, ents[i].digest), "the file an entry names is signed over the entry's firmware digest")
				}
				if verifBytesEq(ents[i].digest, newDigest) {
					mapped = true
					verifAssert(ents[i].path == cand+".binarypb", "the run's firmware digest maps to the file this run wrote")
				}
			}
			verifAssert(mapped, "the run's firmware digest is listed")
		}
		// endorsement file is written before the manifest
		wi, wm := -1, -1
		for k, w := range cops.writes {
			if w == newPath && wi < 0 {
				wi = k
			}
			if w == releaseManifestPath {
				wm = k
			}
		}
		verifAssert(wi >= 0 && wm >= 0 && wi < wm, "endorsement file written before the manifest that references it")
		fi := cops.ws.find(newPath)
		verifAssert(fi >= 0 && cops.ws.files[fi].binary, "endorsement file marked binary")
	}
	verifReach("end")
}

func VerifC13Step0() { verifC13Step(0) }
func VerifC13Step1() { verifC13Step(1) }
func VerifC13Step2() { verifC13Step(2) }
func VerifC13Step3() { verifC13Step(3) }
