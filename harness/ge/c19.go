package gcetcbendorsement

// C19, byte renderings: InspectPayload / InspectSignature / WriteBytesForm write, in raw form
// (and in the automatic form on a writer that is not a terminal), exactly the field bytes — nothing
// before, between or after them — so that an external tool can re-verify the signature over them.
// The hexadecimal form is checked to be the two-digit lower-case rendering of every byte.
//
// The writer is a recording double; the field bytes are arbitrary (length per obligation).

import (
	"bytes"
	"context"

	epb "github.com/google/gce-tcb-verifier/proto/endorsement"
)

type verifRecWriter struct {
	out      []byte
	writes   int
	terminal bool
}

func (w *verifRecWriter) Write(p []byte) (int, error) {
	w.out = append(w.out, p...)
	w.writes++
	return len(p), nil
}
func (w *verifRecWriter) IsTerminal() bool { return w.terminal }

func verifC19Raw(n int) {
	payload := verifNondetBytes("payload", n)
	sig := verifNondetBytes("signature", n)
	e := &epb.VMLaunchEndorsement{SerializedUefiGolden: payload, Signature: sig}
	form := BytesRaw
	if verifNondetBool("auto_form") {
		form = BytesAuto
	}
	w := &verifRecWriter{}
	ctx := WithInspect(context.Background(), &Inspect{Writer: w, Form: form})
	verifAssert(InspectPayload(ctx, e) == nil, "payload rendering succeeds on a working writer")
	verifAssert(bytes.Equal(w.out, payload), "raw payload rendering is exactly the payload bytes")
	verifObserve("payload_out_len", len(w.out))
	w2 := &verifRecWriter{}
	ctx2 := WithInspect(context.Background(), &Inspect{Writer: w2, Form: form})
	verifAssert(InspectSignature(ctx2, e) == nil, "signature rendering succeeds on a working writer")
	verifAssert(bytes.Equal(w2.out, sig), "raw signature rendering is exactly the signature bytes")
	// no context → error, nothing written
	verifAssert(InspectPayload(context.Background(), e) != nil, "no inspect options is an error")
	verifAssert(len(w.out) == n && len(w2.out) == n, "nothing further is written")
	verifReach("end")
}

func VerifC19Raw0()  { verifC19Raw(0) }
func VerifC19Raw1()  { verifC19Raw(1) }
func VerifC19Raw5()  { verifC19Raw(5) }
func VerifC19Raw16() { verifC19Raw(16) }
func VerifC19Raw48() { verifC19Raw(48) }

func verifHexDigit(v byte) byte {
	if v < 10 {
		return '0' + v
	}
	return 'a' + v - 10
}

func verifC19Hex(n int) {
	b := verifNondetBytes("field", n)
	w := &verifRecWriter{}
	verifAssert(WriteBytesForm(b, BytesHex, w) == nil, "hex rendering succeeds on a working writer")
	verifAssert(len(w.out) == 2*n, "hex rendering has two digits per byte")
	for i := 0; i < n && 2*i+1 < len(w.out); i++ {
		verifAssert(w.out[2*i] == verifHexDigit(b[i]>>4) && w.out[2*i+1] == verifHexDigit(b[i]&15), "hex digits render the byte")
	}
	// a field that is not 16 bytes long renders the same way in the GUID-aware form
	if n != 16 {
		w2 := &verifRecWriter{}
		verifAssert(WriteBytesForm(b, BytesHexGuidify, w2) == nil, "guid-aware rendering succeeds")
		verifAssert(bytes.Equal(w2.out, w.out), "non-GUID-sized fields render as plain hex")
	}
	verifReach("end")
}

func VerifC19Hex0()  { verifC19Hex(0) }
func VerifC19Hex3()  { verifC19Hex(3) }
func VerifC19Hex16() { verifC19Hex(16) }
