package verify

import (
	epb "github.com/google/gce-tcb-verifier/proto/endorsement"
	spb "github.com/google/go-sev-guest/proto/sevsnp"
)

// C01 (verify library entry points): whenever Endorsement, EndorsementProto or the SNP validator
// closure accepts, the signature over exactly the carried golden bytes was checked with the
// certificate decoded from those bytes, and that certificate was chain-validated against the
// caller's roots at the caller's time. The library verdicts (sigOK, chainOK) are free booleans:
// the solver may make any signature invalid and any chain untrusted.

func verifC01Opts(w *verifWorld) *Options {
	opts := &Options{RootsOfTrust: w.roots, Now: w.now}
	if verifNondetBool("roots_nil") {
		opts.RootsOfTrust = nil
	}
	opts.ExpectedUefiSha384 = verifAnyLen("want_len", verifNondetBytes("want", 3))
	if verifNondetBool("snp_opts") {
		opts.SNP = &SNPOptions{ExpectedLaunchVMSAs: verifNondetU32("expected_vmsas")}
		if verifNondetBool("snp_meas") {
			opts.SNP.Measurement = verifNondetBytes("optmeas", 48)
		}
	}
	return opts
}

func verifC01Check(w *verifWorld, err error) {
	verifObserve("accepted", err == nil)
	if err == nil {
		verifReach("accepted")
		verifAssert(w.sigChecked && w.sigOK, "accepted only after a valid PSS/SHA-256 signature check over the carried golden bytes with the embedded certificate")
		verifAssert(w.chainChecked && w.chainOK, "accepted only after the embedded certificate chained to the caller's roots at the caller's time")
		verifAssert(w.goldenOK, "accepted only if the golden measurement decoded")
	} else {
		verifReach("rejected")
	}
	verifReach("end")
}

func VerifC01Proto() {
	w := verifNewWorld(1, false)
	e := &epb.VMLaunchEndorsement{SerializedUefiGolden: w.payload, Signature: w.signature}
	verifC01Check(w, EndorsementProto(e, verifC01Opts(w)))
}

func VerifC01Bytes() {
	w := verifNewWorld(1, false)
	w.outerBytes = verifNondetBytes("outer", 2)
	if verifNondetBool("outer_decodes") {
		w.outer = &epb.VMLaunchEndorsement{SerializedUefiGolden: w.payload, Signature: w.signature}
	}
	verifC01Check(w, Endorsement(w.outerBytes, verifC01Opts(w)))
}

type verifGetter struct {
	calls int
	urls  []string
	blob  []byte
	fail  bool
}

func (g *verifGetter) Get(url string) ([]byte, error) {
	g.calls++
	g.urls = append(g.urls, url)
	if g.fail {
		return nil, verifErr
	}
	return g.blob, nil
}

// VerifC01Validator: the closure handed to go-sev-guest, with every source of the endorsement
// (certificate-table blob, pre-parsed option, fetched) and every options shape.
func VerifC01Validator() {
	w := verifNewWorld(1, false)
	w.outerBytes = verifNondetBytes("outer", 2)
	if verifNondetBool("outer_decodes") {
		w.outer = &epb.VMLaunchEndorsement{SerializedUefiGolden: w.payload, Signature: w.signature}
	}
	opts := verifC01Opts(w)
	g := &verifGetter{blob: w.outerBytes, fail: verifNondetBool("get_fails")}
	if verifNondetBool("has_getter") {
		opts.Getter = g
	}
	if verifNondetBool("preparsed") {
		opts.Endorsement = &epb.VMLaunchEndorsement{SerializedUefiGolden: w.payload, Signature: w.signature}
	}
	var blob []byte
	if verifNondetBool("blob_in_table") {
		blob = w.outerBytes
	}
	var att *spb.Attestation
	if verifNondetBool("has_attestation") {
		att = &spb.Attestation{}
		if verifNondetBool("has_report") {
			n := verifConcretize(int(verifNondetU8("report_meas_len")%50), 0, 49)
			att.Report = &spb.Report{Measurement: verifNondetBytes("report_meas", n)}
		}
	}
	validate := SNPValidateFunc(opts)
	verifC01Check(w, validate(att, blob))
}
