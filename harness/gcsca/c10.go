package gcsca

import (
	"context"
	"math/big"
	"time"

	"github.com/google/gce-tcb-verifier/cmd/output"
	"github.com/google/gce-tcb-verifier/keys"
	"github.com/google/gce-tcb-verifier/rotate"
	"github.com/google/gce-tcb-verifier/sign/memca"
	sops "github.com/google/gce-tcb-verifier/sign/ops"
	styp "github.com/google/gce-tcb-verifier/sign/types"
)

// Shared fixture: a key manager, signer and certificate authority (in-memory, or storage-backed
// over the stub object store), bootstrapped fault-free with the real rotate.Bootstrap.

type verifFixture struct {
	signer  *verifSigner
	km      *verifKM
	storage *verifStorage
	gcs     bool
	ca      styp.CertificateAuthority
	t0      time.Time
}

func (f *verifFixture) newCA() styp.CertificateAuthority {
	if f.gcs {
		return &CertificateAuthority{RootPath: "root.crt", PrivateBucket: "b", SigningCertDirInGCS: "certs", Storage: f.storage, SigningKeyPrefix: "psk"}
	}
	return f.ca // the in-memory authority is its own persistent state
}

func (f *verifFixture) ctx(ca styp.CertificateAuthority, overwrite bool) context.Context {
	ctx := keys.NewContext(context.Background(), &keys.Context{CA: ca, Signer: f.signer, Manager: f.km})
	return output.NewContext(ctx, &output.Options{Overwrite: overwrite})
}

func verifNewFixture(gcs, nonprod bool) *verifFixture {
	f := &verifFixture{gcs: gcs, signer: &verifSigner{}, storage: &verifStorage{}}
	f.km = &verifKM{signer: f.signer, nonprodTemplates: nonprod}
	verifTheSigner = f.signer
	if gcs {
		f.ca = f.newCA()
	} else {
		f.ca = memca.Create()
	}
	f.t0 = time.Unix(int64(verifNondetU32("t0")), 0)
	return f
}

func (f *verifFixture) bootstrap() error {
	ctx := rotate.NewBootstrapContext(f.ctx(f.ca, false), &rotate.BootstrapContext{RootKeyCommonName: "root-cn", SigningKeyCommonName: "sign-cn",
		RootKeySerial: big.NewInt(1), SigningKeySerial: big.NewInt(1), Now: f.t0})
	return rotate.Bootstrap(ctx)
}

// rotateOnce runs the real rotation the way cmd/rotate.go does: next serial from the current
// primary's certificate, then rotate.Key.
func (f *verifFixture) rotateOnce(ca styp.CertificateAuthority, overwrite bool, now time.Time) (string, error) {
	ctx := f.ctx(ca, overwrite)
	serial, err := sops.NextSigningKeySerial(ctx)
	if err != nil {
		return "", err
	}
	ctx = rotate.NewSigningKeyContext(ctx, &rotate.SigningKeyContext{SigningKeyCommonName: "sign-cn", SigningKeySerial: serial, Now: now})
	return rotate.Key(ctx)
}

// verifHealthy: the recorded primary signing key is a live key whose stored certificate was
// issued by the stored root.
func (f *verifFixture) verifHealthy(ca styp.CertificateAuthority, when string) {
	ctx := f.ctx(ca, false)
	primary, err := ca.PrimarySigningKeyVersion(ctx)
	verifAssert(err == nil && primary != "", when+": a primary signing key is recorded")
	if err != nil || primary == "" {
		return
	}
	k := f.signer.find(primary)
	verifAssert(k != nil && k.live, when+": the recorded primary signing key is a live key")
	der, err := ca.Certificate(ctx, primary)
	verifAssert(err == nil, when+": the primary signing key has a stored certificate")
	if err != nil {
		return
	}
	cert, err := verifParseCertificate(der)
	verifAssert(err == nil, when+": the primary's certificate parses")
	if err != nil {
		return
	}
	root, err := sops.IssuerCertFromBundle(ctx, ca, primary)
	verifAssert(err == nil, when+": the root certificate is stored and parses")
	if err != nil {
		return
	}
	rec := verifRecOf(cert)
	verifAssert(rec != nil && rec.parent == root && cert.PublicKey == any(k.pub), when+": the primary's certificate is for that key and chains to the stored root")
}

func verifIndex(events []string, e string) int {
	for i, x := range events {
		if x == e {
			return i
		}
	}
	return -1
}

// C10: one rotation with every call able to fail (at most maxFaults faults), then the surviving
// state is inspected after reloading the authority, and a fault-free rotation with overwrite
// must succeed.
func verifC10(gcs bool, maxFaults int) {
	f := verifNewFixture(gcs, false)
	verifAssume(f.bootstrap() == nil, "fault-free bootstrap succeeds")
	verifFaultCount, verifMaxFaults = 0, maxFaults
	if maxFaults > 1 {
		// thorough tier: a first attempt that may already have failed and left things behind
		f.signer.faults, f.km.faults, f.storage.faults = true, true, true
		_, err0 := f.rotateOnce(f.ca, false, time.Unix(int64(verifNondetU32("t0")), 0))
		f.signer.faults, f.km.faults, f.storage.faults = false, false, false
		if err0 != nil {
			verifReach("first-attempt-failed")
		}
		f.verifHealthy(f.newCA(), "after the first of two attempts")
		f.ca = f.newCA()
	}
	old, _ := f.ca.PrimarySigningKeyVersion(f.ctx(f.ca, false))
	verifEvents = nil
	f.signer.faults, f.km.faults, f.storage.faults = true, true, true
	t1 := time.Unix(int64(verifNondetU32("t1")), 0)
	kver, err := f.rotateOnce(f.ca, false, t1)
	f.signer.faults, f.km.faults, f.storage.faults = false, false, false
	verifObserve("ok", err == nil)

	reloaded := f.newCA()
	if err == nil {
		verifReach("rotated")
		p, _ := reloaded.PrimarySigningKeyVersion(f.ctx(reloaded, false))
		verifAssert(p == kver && kver != old, "a successful rotation records the new key as primary")
	} else {
		verifReach("failed")
	}
	f.verifHealthy(reloaded, "after a rotation attempt")
	// the old key is destroyed only after the new certificate and the manifest naming the new
	// primary are durably written
	if d := verifIndex(verifEvents, "destroy:"+old); d >= 0 {
		verifReach("old-destroyed")
		if gcs {
			m := -1
			for i, e := range verifEvents {
				if e == "write:"+ManifestObjectName {
					m = i
				}
			}
			verifAssert(m >= 0 && m < d, "the old key is destroyed only after the manifest naming the new primary is written")
		}
		p, _ := reloaded.PrimarySigningKeyVersion(f.ctx(reloaded, false))
		verifAssert(p != old, "the old key is never destroyed while it is still the recorded primary")
	}
	// a later fault-free rotation that may overwrite leftovers succeeds
	again := f.newCA()
	_, err2 := f.rotateOnce(again, true, t1)
	verifAssert(err2 == nil, "a later fault-free rotation with overwrite succeeds")
	f.verifHealthy(f.newCA(), "after the recovery rotation")
	verifReach("end")
}

func VerifC10Mem1() { verifC10(false, 1) }
func VerifC10Gcs1() { verifC10(true, 1) }
func VerifC10Mem2() { verifC10(false, 2) }
func VerifC10Gcs2() { verifC10(true, 2) }

func keysFromContext(ctx context.Context) (*keys.Context, error) { return keys.FromContext(ctx) }
