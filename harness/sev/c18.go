package sev

import (
	spb "github.com/google/gce-tcb-verifier/proto/sev"
)

// C18 (sev): PAGE_INFO and VMSA page layouts against an independent offset table (AMD SEV-SNP
// ABI PAGE_INFO; AMD APM vol. 2 table B-4 / Linux struct sev_es_save_area).

func verifLE(b []byte, off, n int) uint64 {
	var v uint64
	for i := 0; i < n; i++ {
		v |= uint64(b[off+i]) << (8 * uint(i))
	}
	return v
}

func VerifC18PageInfo() {
	var p PageInfo
	copy(p.digestCur[:], verifNondetBytes("cur", 48))
	copy(p.contents[:], verifNondetBytes("contents", 48))
	p.length = verifNondetU16("len")
	p.pageType = verifNondetU8("type")
	p.imi = verifNondetU8("imi")
	p.vmpl1Perms, p.vmpl2Perms, p.vmpl3Perms = verifNondetU8("v1"), verifNondetU8("v2"), verifNondetU8("v3")
	p.gpa = verifNondetU64("gpa")
	buf := verifNondetBytes("buf", SizeofPageInfo+2)
	orig := append([]byte(nil), buf...)
	verifAssert(p.Put(buf) == nil, "PageInfo.Put accepts a 0x70+ byte buffer")
	for i := 0; i < 48; i++ {
		verifAssert(buf[i] == p.digestCur[i] && buf[0x30+i] == p.contents[i], "PAGE_INFO: DIGEST_CUR at 0x00, CONTENTS at 0x30")
	}
	verifAssert(verifLE(buf, 0x60, 2) == uint64(p.length) && buf[0x62] == p.pageType && buf[0x63] == p.imi, "PAGE_INFO: LENGTH at 0x60, PAGE_TYPE at 0x62, IMI at 0x63")
	verifAssert(buf[0x64] == 0 && buf[0x65] == p.vmpl1Perms && buf[0x66] == p.vmpl2Perms && buf[0x67] == p.vmpl3Perms, "PAGE_INFO: reserved 0x64, VMPL1..3 permissions at 0x65..0x67")
	verifAssert(verifLE(buf, 0x68, 8) == p.gpa, "PAGE_INFO: GPA at 0x68")
	verifAssert(buf[0x70] == orig[0x70] && buf[0x71] == orig[0x71], "PageInfo.Put writes exactly 0x70 bytes")
	verifAssert(p.Put(buf[:SizeofPageInfo-1]) != nil, "PageInfo.Put refuses a short buffer")
	b, err := p.Bytes()
	verifAssert(err == nil && len(b) == SizeofPageInfo, "PageInfo.Bytes is 0x70 bytes")
	verifObserve("b62", buf[0x62])
	verifReach("end")
}

type verifSegRef struct {
	seg *spb.VmcbSeg
	off int
}

func verifSeg(tag string, present bool) *spb.VmcbSeg {
	if !present {
		return nil
	}
	return &spb.VmcbSeg{Selector: verifNondetU32(tag + "_sel"), Attrib: verifNondetU32(tag + "_attr"), Limit: verifNondetU32(tag + "_lim"), Base: verifNondetU64(tag + "_base")}
}

type verifU64Ref struct {
	v   uint64
	off int
}

// verifVmsa builds a save area with every scalar symbolic. reserved: 0 = reserved fields absent,
// 1 = present with their documented sizes and zero contents, 2 = present with symbolic contents.
func verifVmsa(reserved int, segsPresent bool) {
	verifUnwind(128)
	v := &spb.VmcbSaveArea{}
	v.Es, v.Cs, v.Ss, v.Ds, v.Fs = verifSeg("es", segsPresent), verifSeg("cs", segsPresent), verifSeg("ss", segsPresent), verifSeg("ds", segsPresent), verifSeg("fs", segsPresent)
	v.Gs, v.Gdtr, v.Ldtr, v.Idtr, v.Tr = verifSeg("gs", segsPresent), verifSeg("gdtr", segsPresent), verifSeg("ldtr", segsPresent), verifSeg("idtr", segsPresent), verifSeg("tr", segsPresent)
	segs := []verifSegRef{{v.Es, 0x00}, {v.Cs, 0x10}, {v.Ss, 0x20}, {v.Ds, 0x30}, {v.Fs, 0x40}, {v.Gs, 0x50}, {v.Gdtr, 0x60}, {v.Ldtr, 0x70}, {v.Idtr, 0x80}, {v.Tr, 0x90}}
	v.Cpl = verifNondetU32("cpl")
	n := func(name string) uint64 { return verifNondetU64(name) }
	v.Efer, v.Xss, v.Cr4, v.Cr3, v.Cr0, v.Dr7, v.Dr6, v.Rflags, v.Rip = n("efer"), n("xss"), n("cr4"), n("cr3"), n("cr0"), n("dr7"), n("dr6"), n("rflags"), n("rip")
	v.Rsp, v.Rax, v.Star, v.Lstar, v.Cstar, v.Sfmask, v.KernelGsBase = n("rsp"), n("rax"), n("star"), n("lstar"), n("cstar"), n("sfmask"), n("kgs")
	v.SysenterCs, v.SysenterEsp, v.SysenterEip, v.Cr2 = n("scs"), n("sesp"), n("seip"), n("cr2")
	v.GPat, v.Dbgctl, v.BrFrom, v.BrTo, v.LastExcpFrom, v.LastExcpTo = n("gpat"), n("dbgctl"), n("brfrom"), n("brto"), n("lef"), n("let")
	v.Pkru = verifNondetU32("pkru")
	v.Rcx, v.Rdx, v.Rbx, v.Rbp, v.Rsi, v.Rdi = n("rcx"), n("rdx"), n("rbx"), n("rbp"), n("rsi"), n("rdi")
	v.R8, v.R9, v.R10, v.R11, v.R12, v.R13, v.R14, v.R15 = n("r8"), n("r9"), n("r10"), n("r11"), n("r12"), n("r13"), n("r14"), n("r15")
	v.SwExitCode, v.SwExitInfo_1, v.SwExitInfo_2, v.SwScratch, v.SevFeatures, v.Xcr0 = n("swec"), n("swi1"), n("swi2"), n("sws"), n("sevf"), n("xcr0")
	v.Reserved_8, v.Reserved_9 = n("res8"), n("res9")
	// reserved byte ranges with their documented sizes
	type res struct {
		p      *[]byte
		lo, sz int
	}
	rs := []res{{&v.Reserved_1, 0xA0, 43}, {&v.Reserved_2, 0xCC, 4}, {&v.Reserved_3, 0xD8, 104}, {&v.Reserved_4, 0x180, 88}, {&v.Reserved_5, 0x1E0, 24},
		{&v.Reserved_6, 0x248, 32}, {&v.Reserved_7, 0x298, 80}, {&v.Reserved_7A, 0x2EC, 20}, {&v.Reserved_10, 0x380, 16}, {&v.Reserved_11, 0x3B8, 48}}
	reservedZero := true
	for _, r := range rs {
		switch reserved {
		case 1:
			*r.p = make([]byte, r.sz)
		case 2:
			*r.p = verifNondetBytes("reserved", r.sz)
			for _, b := range *r.p {
				reservedZero = reservedZero && b == 0
			}
		}
	}
	data := verifNondetBytes("page", 0x1000)
	err := PutVmsa(v, data)

	inRange := v.Cpl < 256 && v.Reserved_8 == 0 && v.Reserved_9 == 0
	for _, s := range segs {
		if s.seg != nil {
			inRange = inRange && s.seg.Selector < 1<<16 && s.seg.Attrib < 1<<16
		}
	}
	verifObserve("ok", err == nil)
	if !inRange {
		verifAssert(err != nil, "out-of-range selector/attrib/cpl or non-zero reserved quadword is refused")
		verifReach("refused-range")
		return
	}
	if !reservedZero {
		verifAssert(err != nil, "non-zero reserved bytes are refused")
		verifReach("refused-reserved")
		return
	}
	verifAssert(err == nil, "in-range save area with zero (or absent) reserved fields of their documented sizes is accepted")
	if err != nil {
		return
	}
	verifReach("accepted")
	for _, s := range segs {
		var sel, attr, lim, base uint64
		if s.seg != nil {
			sel, attr, lim, base = uint64(s.seg.Selector), uint64(s.seg.Attrib), uint64(s.seg.Limit), s.seg.Base
		}
		verifAssert(verifLE(data, s.off, 2) == sel && verifLE(data, s.off+2, 2) == attr && verifLE(data, s.off+4, 4) == lim && verifLE(data, s.off+8, 8) == base,
			"segment register: selector +0, attrib +2, limit +4, base +8 at its table offset")
	}
	verifAssert(data[0xCB] == uint8(v.Cpl), "CPL at 0xCB")
	for _, f := range []verifU64Ref{{v.Efer, 0xD0}, {v.Xss, 0x140}, {v.Cr4, 0x148}, {v.Cr3, 0x150}, {v.Cr0, 0x158}, {v.Dr7, 0x160}, {v.Dr6, 0x168}, {v.Rflags, 0x170}, {v.Rip, 0x178},
		{v.Rsp, 0x1D8}, {v.Rax, 0x1F8}, {v.Star, 0x200}, {v.Lstar, 0x208}, {v.Cstar, 0x210}, {v.Sfmask, 0x218}, {v.KernelGsBase, 0x220}, {v.SysenterCs, 0x228},
		{v.SysenterEsp, 0x230}, {v.SysenterEip, 0x238}, {v.Cr2, 0x240}, {v.GPat, 0x268}, {v.Dbgctl, 0x270}, {v.BrFrom, 0x278}, {v.BrTo, 0x280}, {v.LastExcpFrom, 0x288},
		{v.LastExcpTo, 0x290}, {v.Rcx, 0x308}, {v.Rdx, 0x310}, {v.Rbx, 0x318}, {v.Rbp, 0x328}, {v.Rsi, 0x330}, {v.Rdi, 0x338}, {v.R8, 0x340}, {v.R9, 0x348}, {v.R10, 0x350},
		{v.R11, 0x358}, {v.R12, 0x360}, {v.R13, 0x368}, {v.R14, 0x370}, {v.R15, 0x378}, {v.SwExitCode, 0x390}, {v.SwExitInfo_1, 0x398}, {v.SwExitInfo_2, 0x3A0},
		{v.SwScratch, 0x3A8}, {v.SevFeatures, 0x3B0}, {v.Xcr0, 0x3E8}} {
		verifAssert(verifLE(data, f.off, 8) == f.v, "64-bit save-area field at its table offset")
	}
	verifAssert(verifLE(data, 0x2E8, 4) == uint64(v.Pkru), "PKRU at 0x2E8")
	zero := true
	for _, r := range rs {
		for i := r.lo; i < r.lo+r.sz; i++ {
			zero = zero && data[i] == 0
		}
	}
	for i := 0x300; i < 0x308; i++ {
		zero = zero && data[i] == 0
	}
	for i := 0x320; i < 0x328; i++ {
		zero = zero && data[i] == 0
	}
	for i := 0x3F0; i < SizeofVmsa; i++ {
		zero = zero && data[i] == 0
	}
	verifAssert(zero, "reserved ranges and the tail up to 0x670 are written as zero")
	verifReach("end")
}

func VerifC18VmsaNoReserved()   { verifVmsa(0, true) }
func VerifC18VmsaZeroReserved() { verifVmsa(1, true) }
func VerifC18VmsaSymReserved()  { verifVmsa(2, false) }
func VerifC18VmsaNilSegs()      { verifVmsa(0, false) }
